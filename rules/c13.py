"""C13 — loading adds exactly the document's triples: no foreign ids, chunk workers are line-independent (structural)."""
from lib import facts as F
from lib import guards as G
from lib.taint import Taint
from c14 import const_text

SD = "kolibrie::sparql_database::SparqlDatabase"
STORE_TYPES = ("kolibrie::sparql_database::SparqlDatabase", "datalog::reasoning::Reasoner", "shared::dataset_index::DatasetIndex")
SOURCES = ("query_default_triples", "all_quads", "query_graph_quads", "query_quads", "query", "query_default", "query_graph",
           "query_named_graphs", "named_graphs", "graphs")
SINKS = ("add_triple", "add_quad", "insert_quad", "insert_triple", "insert", "delete_triple", "delete_quad", "create_graph")
SANITIZERS = ("reencode_term_id", "encode_term_star", "encode", "encode_triples", "parse_and_encode_ntriples", "add_triple_parts",
              "add_quad_parts", "parse_statement", "resolve_term")
ID_TY = ("shared::triple::Triple", "shared::dataset_index::Quad", "shared::dataset_index::GraphId", "u32")


def is_test(b):
    return "::tests::" in b.key or b.unit.endswith("__test") or "/tests/" in b.file or "/examples/" in b.file or "/benches/" in b.file


def store_root(b, op):
    """identity of the store a receiver operand denotes: (body key, root local, field path) or None"""
    o = b.origin(op, stop_named=False)
    if o[0] == "call":
        c = o[1]
        # guard.deref() / lock().unwrap() chains
        if c.args:
            return store_root(b, c.args[0])
        # a constructor call: the store is the local that receives it
        return (b.key, c.dest["l"], ())
    if o[0] != "place":
        return None
    pl = o[1]
    fields = tuple(e["n"] for e in pl["p"] if e["k"] == "field" and e["n"] not in ("dataset_index",))
    l = pl["l"]
    d = b.single_def(l)
    if d and d[0] == "call" and d[2].args and d[2].name() in ("deref", "deref_mut", "unwrap", "lock", "read", "write", "borrow", "borrow_mut",
                                                                 "as_ref", "as_mut", "expect"):
        r = store_root(b, d[2].args[0])
        if r is not None:
            return (r[0], r[1], r[2] + fields)
    if b.is_closure and l == 1:
        # captured variable: identify by capture name within the parent
        for e in pl["p"]:
            if e["k"] == "field":
                nm = None
                for idx, n in b.r.get("upvars", []):
                    if idx == e["i"]:
                        nm = n
                rest = tuple(x["n"] for x in pl["p"][pl["p"].index(e) + 1:] if x["k"] == "field" and x["n"] != "dataset_index")
                return (b.parent, "capture:" + str(nm), rest)
    return (b.key, l, fields)


def store_ty(b, op):
    pl = F.op_place(op)
    if pl is None:
        return None
    t = b.local_ty(pl["l"])
    for s in STORE_TYPES:
        if s in t:
            return s
    return None


def run(R):
    prog = R.prog
    R.rule("C13-R1", "no foreign ids: identifiers (triples, quads, graph ids) read from one store are never inserted into another "
                     "store unless they were re-encoded or the two stores provably share one dictionary")
    R.rule("C13-R2", "chunk workers are line-independent: the closure that parses one chunk of a line-oriented document carries no "
                     "state from one line to the next except its output, and handles no document-global directive")
    R.rule("C13-R3", "document coverage: what the parallel workers of a chunked loader iterate over is a total partition of the "
                     "document's lines - it reaches the worker from the document text only through element-preserving steps "
                     "(lines, collect, chunks/par_chunks, iterators, copies); no hand-computed sub-range and no truncating adaptor")
    R.rule("C13-R4", "memoised term resolution depends on nothing but its key: where a loader caches the expansion of a token (map lookup, "
                     "else compute and insert), every piece of loader state the computation reads (the prefix table) is either part of "
                     "the key or never written while the cache lives - or the cache is cleared where that state changes")
    R.rule("C13-R5", "the line loaders' term cleaners agree on literals: clean_ntriples_term and clean_turtle_term both decode a quoted literal "
                     "with decode_ntriples_literal and treat what follows the closing quote alike - nothing, a datatype (`^^`) and a language "
                     "tag (`@`) - so the same triple written in N-Triples and in Turtle is stored identically")
    r1(R)
    r2(R)
    r3(R)
    r4(R)
    r5(R)
    R.rule("C13-R6", "the literal tokenizer's language-tag class is the grammar's: after `@` the N-Triples / N-Quads tokenizer keeps consuming "
                     "letters, DIGITS and `-` (LANGTAG ::= '@' [a-zA-Z]+ ('-' [a-zA-Z0-9]+)*) - a narrower class cuts `@es-419` in two, the "
                     "line then has an extra part and is dropped (or, in N-Quads, loaded into a graph named `419`)")
    r6(R)
    R.rule("C13-R7", "a line is cut at `#` only by a scanner that knows where IRIs and strings are: no loader truncates a document line at the first "
                     "`#` found by a plain character search (`line.find('#')`); `<http://..#frag>` and `\"a # b\"` contain that character. "
                     "Whole-line comments (`starts_with('#')`) are fine")
    R.rule("C13-R8", "every text loader with quoted-literal syntax decodes its literals: from each of the parse_* entry points for N-Triples, N-Quads, "
                     "Turtle and N3 a literal decoder (one of the term cleaners or the Turtle token decoder) is reachable; a loader that stores the object "
                     "token as written keeps the surrounding quotes and escapes, so the same triple loads differently from different formats")
    R.rule("C13-R9", "RDF/XML character data is one literal: the RDF/XML loaders emit a literal triple when the property element ends (End event), "
                     "from text accumulated over the Text and entity-reference events in between - not one triple per Text event, which splits "
                     "`a &amp; b` into `a` and `b` and drops the entity")
    R.rule("C13-R10", "escapes are tracked by state, not by looking back: a character scanner of the loaders that has to know whether a quote is "
                      "escaped keeps a flag that a backslash sets and the next character clears (as the tokenizers and decoders do). None "
                      "compares the PREVIOUS character with a backslash: after `\\\\` (an escaped backslash) the previous character is a backslash "
                      "although the quote that follows is not escaped - the in-literal state is then inverted for the rest of the line")
    r7(R)
    r8(R)
    r9(R)
    r10(R)
    R.rule("C13-R11", "a prefixed name is split at its FIRST colon: every prefix expander (a function that looks a key up in a prefix map, the key "
                      "being a piece of the term cut at `:`) cuts with split_once / splitn / find - none with rsplit_once / rsplitn / rfind. "
                      "A local name may contain colons (`dbr:Category:Physics`); cutting at the last one looks up the undeclared prefix "
                      "`dbr:Category` and stores the name unexpanded, so Turtle and N-Triples spellings of one triple load differently")
    r11(R)
    r12(R)
    r13(R)
    r14(R)
    import c14
    c14.case_preserved(R, "C13-R15")
    r16(R)


def shared_dictionary(b, fam, prog, root_a, root_b):
    """B's dictionary is assigned from A's (Arc::clone) somewhere in the family"""
    for x in fam:
        for bb, i, pl, rv, s in x.assigns():
            if pl["p"] and pl["p"][-1].get("n") == "dictionary":
                dst = (x.key, pl["l"])
                # source: Arc::clone(&A.dictionary) or a dictionary passed in
                src = None
                if rv["rv"] == "use":
                    o = x.origin(rv["op"], stop_named=False)
                    if o[0] == "call" and o[1].name() == "clone" and o[1].args:
                        o2 = x.origin(o[1].args[0], stop_named=False)
                        if o2[0] == "place":
                            src = (x.key, o2[1]["l"])
                    elif o[0] == "place":
                        src = (x.key, o[1]["l"])
                if src is None:
                    continue
                if root_b[0] == dst[0] and root_b[1] == dst[1]:
                    if (root_a[0], root_a[1]) == src or True:
                        # any explicit dictionary injection counts: ids are then relative to the injected dictionary, and
                        # the source store must be the dictionary's owner or share it as well
                        return True
    return False


def index_owner(prog, fam, rb):
    """for a bare DatasetIndex local: the store whose dictionary its ids are relative to, i.e. the database it is finally
    stored into (`X.dataset_index = idx`) or, for a database built around it, the store whose dictionary that database clones"""
    key, l, fields = rb
    x = prog.bodies.get(key)
    if x is None or not isinstance(l, int) or "DatasetIndex" not in x.local_ty(l):
        return None
    for bb, i, pl, rv, s in x.assigns():
        if pl["p"] and pl["p"][-1].get("n") == "dataset_index" and rv["rv"] == "use" and x.alias_root(rv["op"]) == l:
            base = {"l": pl["l"], "p": pl["p"][:-1], "t": ""}
            r = store_root(x, {"k": "copy", "pl": base})
            if r is not None:
                return (r[0], r[1])
        if rv["rv"] == "aggregate" and rv.get("adt") == SD and "dataset_index" in rv.get("fields", []):
            iop = rv["ops"][rv["fields"].index("dataset_index")]
            if x.alias_root(iop) != l:
                continue
            dop = rv["ops"][rv["fields"].index("dictionary")]
            src = _dictionary_source(x, dop)
            if src is not None:
                return (src[0], src[1])
    return None


def _dictionary_source(x, op, depth=0):
    """the store whose dictionary a (wrapped, cloned) dictionary operand was copied from"""
    if depth > 12:
        return None
    o = x.origin(op, stop_named=False)
    c = None
    if o[0] == "call":
        c = o[1]
    elif o[0] == "place":
        if any(e["k"] == "field" and e["n"] == "dictionary" for e in o[1]["p"]):
            return store_root(x, {"k": "copy", "pl": {"l": o[1]["l"], "p": [e for e in o[1]["p"] if not (e["k"] == "field" and e["n"] == "dictionary")], "t": ""}})
        d = x.single_def(o[1]["l"])
        if d and d[0] == "call":
            c = d[2]
    if c is None or not c.args:
        return None
    if c.name() in ("new", "clone", "deref", "unwrap", "read", "write", "lock", "expect", "borrow", "as_ref"):
        return _dictionary_source(x, c.args[0], depth + 1)
    return None


def r1(R):
    prog = R.prog
    # scope: the database crate (loaders, union, stream/ML glue). The experimental multi-level reasoner of `datalog` keeps
    # several reasoners by design and is not a loading path.
    roots = [b for b in prog.bodies.values() if not b.is_closure and b.crate == "kolibrie" and not is_test(b)]
    nsink = npairs = 0
    for b in sorted(roots, key=lambda x: x.key):
        fam = prog.family(b.key)
        sink_calls = []
        src_calls = []
        for x in fam:
            for c in x.calls():
                if c.name() in SINKS and c.args and store_ty(x, c.args[0]) and len(c.args) >= 2:
                    sink_calls.append((x, c))
                if c.name() in SOURCES and c.args and store_ty(x, c.args[0]):
                    src_calls.append((x, c))
        if not sink_calls or not src_calls:
            continue
        R.saw(b)

        def summ(c):
            if c.name() in SANITIZERS:
                return "clean"
            if c.name() in ("len", "is_empty", "contains", "contains_key", "decode", "decode_any", "decode_term", "to_string"):
                return "clean"
            return None
        T = Taint(prog, b, summaries=summ)
        for x, c in src_calls:
            r = store_root(x, c.args[0])
            if r is not None:
                T.t[(x.key, c.dest["l"])].add(("store", r))
        T.run()
        for x, c in sink_calls:
            rb = store_root(x, c.args[0])
            if rb is None:
                continue
            nsink += 1
            for a in c.args[1:]:
                pl = F.op_place(a)
                if pl is None:
                    continue
                ty = x.local_ty(pl["l"]).lstrip("&").replace("mut ", "")
                if not ty.startswith(ID_TY):
                    continue
                labs = set()
                seen = set()
                work = [pl["l"]]
                while work:
                    l = work.pop()
                    if l in seen:
                        continue
                    seen.add(l)
                    labs |= {z for z in T.get(x, l) if isinstance(z, tuple) and z[0] == "store"}
                    d = x.single_def(l)
                    if d and d[0] == "assign":
                        for p2, kind in F.rv_places(d[3]):
                            work.append(p2["l"])
                for lab in labs:
                    ra = lab[1]
                    if ra == rb:
                        continue
                    npairs += 1
                    ok = shared_dictionary(b, fam, prog, ra, rb)
                    if not ok:
                        owner = index_owner(prog, fam, rb)
                        ok = owner is not None and owner == (ra[0], ra[1])
                    R.ob("C13-R1", "foreign:%s:%s" % (b.short, c.name()), "%s inserts identifiers read from another store into %s only when "
                         "both stores share a dictionary or the ids were re-encoded" % (b.short, _rname(prog, rb)), ok, where=x.where(c.ln),
                         detail=None if ok else "ids of %s are meaningless (or alias other terms) in the target's dictionary; Dictionary::merge "
                         "keeps the first id on a clash and is not a re-encoding" % _rname(prog, ra))
    R.floor("C13-R1", "store insertions examined", nsink, 10)
    R.floor("C13-R1", "cross-store flows judged", npairs, 2)


def _rname(prog, r):
    b = prog.bodies.get(r[0])
    nm = None
    if b is not None and isinstance(r[1], int):
        nm = b.local_name(r[1])
    return "%s%s" % (nm or r[1], "".join("." + f for f in r[2]))


def r2(R):
    prog = R.prog
    loaders = []
    for b in prog.bodies.values():
        if b.self_adt != SD or b.is_closure or not b.name.startswith("parse_"):
            continue
        # a chunked parallel loader: calls chunks/par_chunks and par_iter().map(closure)
        names = {c.name() for c in b.calls()}
        if any(nm in names for nm in ("chunks", "par_chunks", "chunks_exact", "rchunks", "par_iter", "into_par_iter")) and ("map" in names) \
                and any(c.name() == "map" and "rayon" in ((c.callee or "") + (c.pretty or "")) for c in b.calls()):
            loaders.append(b)
    R.floor("C13-R2", "chunked parallel loaders", len(loaders), 2)
    for b in sorted(loaders, key=lambda x: x.key):
        R.saw(b)
        workers = []
        for c in b.calls():
            if c.name() == "map" and len(c.args) == 2:
                from c19 import closure_family_calls
                key, inner = closure_family_calls(prog, b, c.args[1])
                if key and any(x.key == key and x.loops() for x, ic in inner):
                    workers.append(prog.bodies[key])
        R.ob("C13-R2", "worker:" + b.name, "%s has a per-chunk worker closure with a line loop" % b.name, len(workers) >= 1, where=b.where())
        for w in workers:
            # locals defined before the line loop, mutated inside it, that are not (part of) the returned value
            loops = w.loops()
            if not loops:
                continue
            h, body = max(loops, key=lambda x: len(x[1]))
            returned = _returned_roots(w)
            carried = {}
            for c in w.calls():
                if c.bb not in body or not c.args:
                    continue
                pl = F.op_place(c.args[0])
                if pl is None or not w.local_ty(pl["l"]).startswith("&mut"):
                    continue
                if c.name() in ("next",):
                    continue
                o = w.origin(c.args[0], stop_named=True)
                if o[0] != "place":
                    continue
                root = o[1]["l"]
                nm = w.local_name(root)
                if nm is None:
                    continue
                ds = w.defs().get(root, [])
                defined_before = any((d[0] in ("assign", "call")) and d[1] not in body for d in ds)
                if not defined_before:
                    continue
                carried.setdefault((root, nm), []).append(c)
            for (root, nm), cs in sorted(carried.items()):
                is_out = root in returned
                R.ob("C13-R2", "carried:%s:%s" % (b.name, nm), "the chunk worker of %s carries `%s` across lines only because it is its output"
                     % (b.name, nm), is_out, where=w.where(cs[0].ln),
                     detail=None if is_out else "a statement or directive that spans a chunk boundary is parsed differently depending on the chunk size")
            # document-global directives handled inside a worker
            dirs = set()
            for x in prog.family(w.key):
                for c in x.calls():
                    for a in c.args:
                        tx = const_text(a)
                        if tx and tx.startswith("@"):
                            dirs.add(tx)
            R.ob("C13-R2", "directives:" + b.name, "the chunk worker of %s handles no document-global directive (found %s)" % (b.name, sorted(dirs)),
                 not dirs, where=w.where(), detail=None if not dirs else "a directive is only known to the chunk it appears in")


def _returned_roots(w):
    """named locals whose value (or a field of it) flows into the closure's return value"""
    out = set()
    seen = set()
    work = [0]
    while work:
        l = work.pop()
        if l in seen:
            continue
        seen.add(l)
        if w.local_name(l):
            out.add(l)
        for d in w.defs().get(l, []):
            if d[0] == "assign":
                for p2, kind in F.rv_places(d[3]):
                    work.append(p2["l"])
            elif d[0] == "call":
                for a in d[2].args:
                    p2 = F.op_place(a)
                    if p2 is not None:
                        work.append(p2["l"])
    return out


# ---------------------------------------------------------------- R3 document coverage

from lib.pipeline import coverage_terminals as _pipeline_terminals


def r3(R):
    prog = R.prog
    n = 0
    for b in sorted(prog.bodies.values(), key=lambda x: x.key):
        if b.self_adt != SD or b.is_closure or not b.name.startswith("parse_") or is_test(b):
            continue
        names = {c.name() for c in b.calls()}
        if "map" not in names:
            continue
        for c in b.calls():
            if c.name() != "map" or len(c.args) != 2:
                continue
            if not (c.callee or "").startswith("rayon::") and "rayon" not in (c.pretty or ""):
                continue
            from c19 import closure_family_calls
            key, inner = closure_family_calls(prog, b, c.args[1])
            if not key or not any(x.key == key and x.loops() for x, ic in inner):
                continue
            n += 1
            R.saw(b)
            terms = []
            _pipeline_terminals(prog, b, c.args[0], set(), terms)
            docs = [t for t in terms if t[0] == "doc"]
            other = [t for t in terms if t[0] != "doc"]
            ok = bool(docs) and not other
            R.ob("C13-R3", "coverage:" + b.name, "the slices handed to the parallel workers of %s come from the document text (%s) only through "
                 "element-preserving steps" % (b.name, ", ".join(sorted({str(t[1]) for t in docs})) or "?"), ok, where=b.where(c.ln),
                 detail=None if ok else "not a total partition by construction: also computed from %s - lines outside the hand-computed "
                 "ranges (e.g. a division remainder) are never parsed"
                 % "; ".join(sorted({"%s%s" % (t[1], (" (line %s)" % t[2]) if t[2] else "") for t in other})))
    R.floor("C13-R3", "parallel worker pipelines", n, 2)


# ---------------------------------------------------------------- R4 memo keys

def r4(R):
    from lib import pipeline as P
    prog = R.prog
    nload = 0
    nmemo = 0
    for b in sorted(prog.bodies.values(), key=lambda x: x.key):
        if b.self_adt != SD or b.is_closure or not b.name.startswith("parse_") or is_test(b):
            continue
        nload += 1
        fam = prog.family(b.key)
        # state written by the loader while it runs: fields of self / the database that receive insert/extend/clear
        written = {}
        for x in fam:
            for c in x.calls():
                if c.name() in ("insert", "extend", "remove", "clear", "entry", "push") and c.args:
                    o = x.origin(c.args[0], stop_named=False)
                    if o[0] == "place":
                        for e in o[1]["p"]:
                            if e["k"] == "field" and e.get("adt") == SD:
                                written.setdefault(e["n"], []).append((x, c))
        for x in fam:
            ins = [c for c in x.calls() if c.name() == "insert" and len(c.args) == 3 and "HashMap" in (c.pretty or "")]
            for c in ins:
                m = _map_identity(x, c.args[0])
                if m is None or m[0] != "local":
                    continue            # a field of the database is not a scratch cache
                gets = [g for g in x.calls() if g.name() in ("get", "contains_key") and g.args and _map_identity(x, g.args[0]) == m]
                if not gets:
                    continue
                # memo shape: a hit returns / yields the stored value
                nmemo += 1
                R.saw(b)
                vl = F.op_place(c.args[2])
                der = P.derives(prog, x, vl["l"]) if vl is not None else set()
                reads = set()
                for t in der:
                    if t[0] == "field":
                        reads.add(t[1].split(".")[-1])
                # captured database fields read by the computation inside closures
                for bb, i, pl, rv, st in x.assigns():
                    for p2, k2 in F.rv_places(rv):
                        for e in p2["p"]:
                            if e["k"] == "field" and e.get("adt") == SD:
                                reads.add(e["n"])
                # fields of the database read by the methods the computation calls (the cached value may be `this.turtle_term(raw)`)
                from lib import cover
                for cc in x.calls():
                    cb = prog.bodies.get(cc.key)
                    if cb is not None and cb.crate == "kolibrie" and cb.self_adt == SD and cc.name() not in ("add_triple", "add_quad", "encode_term_star", "encode_loaded_term"):
                        if vl is not None and (("call", cc.name()) in der):
                            reads |= set(cover.consulted_fields(prog, cb, SD))
                stale = sorted(f for f in reads if f in written and f not in ("dictionary", "dataset_index", "quoted_triple_store"))
                cleared = any(cc.name() == "clear" and cc.args and _map_identity(y, cc.args[0]) is not None and
                              (_map_identity(y, cc.args[0]) == m or _map_identity(y, cc.args[0])[1:] == m[1:]) for y in fam for cc in y.calls())
                ok = not stale or cleared
                R.ob("C13-R4", "memo:%s:%s" % (b.name, m[2] if len(m) > 2 else m[1]), "the term cache `%s` in %s is keyed on everything its values depend on "
                     "(loader state read by the computation and written during the load: %s)" % (m[2] if len(m) > 2 else m[1], b.name, stale), ok,
                     where=x.where(c.ln), detail=None if ok else "the cached expansion was computed under an earlier binding of %s; after the document rebinds "
                     "it (two @prefix lines for one label, e.g. concatenated files) later statements reuse the stale value" % stale)
    R.ob("C13-R4", "loaders", "loader bodies scanned for scratch caches (%d loaders, %d caches)" % (nload, nmemo), nload >= 5)


def _map_identity(x, op):
    """('local', body key, name) for a map held in a named local (possibly captured by a closure), ('field', ...) for a struct field"""
    o = x.origin(op, stop_named=True)
    if o[0] != "place":
        return None
    pl = o[1]
    if x.is_closure and pl["l"] == 1:
        for e in pl["p"]:
            if e["k"] == "field":
                for idx, nm in x.r.get("upvars", []):
                    if idx == e["i"]:
                        return ("local", "capture", nm)
                return None
    if any(e["k"] == "field" and e.get("adt") for e in pl["p"]):
        return ("field", tuple(e["n"] for e in pl["p"] if e["k"] == "field"))
    nm = x.local_name(pl["l"])
    if nm is None:
        return None
    return ("local", "capture", nm)


def r5(R):
    prog = R.prog
    shapes = {}
    for nm in ("clean_ntriples_term", "clean_turtle_term"):
        b = R.body("C13-R5", "SparqlDatabase::" + nm, crate="kolibrie")
        if b is None:
            continue
        R.saw(b)
        dec = [c for c in b.calls() if c.name() == "decode_ntriples_literal"]
        tests = set()
        if dec:
            # tests applied to the remainder component of the decoder's result
            for x in prog.family(b.key):
                for c in x.calls():
                    if c.name() == "is_empty" and c.args:
                        tests.add("empty")
                    if c.name() == "starts_with" and len(c.args) >= 2:
                        lit = const_text(c.args[1])
                        if lit in ("^^", "@"):
                            tests.add("suffix:" + lit)
        shapes[nm] = (bool(dec), frozenset(tests))
        R.ob("C13-R5", "decodes:" + nm, "%s decodes literals with decode_ntriples_literal" % nm, bool(dec), where=b.where())
    if len(shapes) == 2:
        a, t = shapes["clean_ntriples_term"], shapes["clean_turtle_term"]
        need = {"empty", "suffix:^^", "suffix:@"}
        ok = a[1] >= need and t[1] >= need
        R.ob("C13-R5", "suffixes-agree", "both cleaners handle a bare literal, a datatype suffix and a language tag (N-Triples: %s, Turtle: %s)"
             % (sorted(a[1]), sorted(t[1])), ok, where=prog.one("SparqlDatabase::clean_turtle_term", crate="kolibrie").where(),
             detail=None if ok else "a literal with a language tag or a datatype falls through to the quote-trimming fallback in one loader: `\"chat\"@fr` is stored as "
             "`chat\"@fr` by the Turtle loader and as `chat@fr` by the N-Triples loader")


def r6(R):
    prog = R.prog
    b = R.body("C13-R6", "SparqlDatabase::parse_ntriples_parts", crate="kolibrie")
    if b is None:
        return
    R.saw(b)
    # the branch taken for '@' (char 64) after a closing quote
    at_regions = []
    for bb, i, pl, rv, st in b.assigns():
        if rv["rv"] == "binop" and rv["op"] == "Eq" and any(F.const_int(o) == 64 for o in (rv["a"], rv["b"])) and not pl["p"]:
            for bb2, t in b.terms():
                if t["t"] == "switch" and b.reads(t["discr"], pl["l"]):
                    at_regions.append(t["otherwise"])
    for bb, t in b.terms():
        if t["t"] == "switch":
            for v, tgt in t["targets"]:
                if str(v) == "64" and "char" in b.local_ty((F.op_place(t["discr"]) or {"l": 0})["l"]):
                    at_regions.append(tgt)
    R.ob("C13-R6", "at-branch", "the tokenizer has a branch for `@` after a literal (found %d)" % len(at_regions), len(at_regions) >= 1, where=b.where())
    classes = set()
    for tgt in at_regions:
        region = {k for k in b.reachable_blocks() if b.dominates(tgt, k)} | {tgt}
        for c in b.calls():
            if c.bb in region and c.name().startswith("is_"):
                classes.add(c.name())
    digits = {"is_alphanumeric", "is_ascii_alphanumeric", "is_ascii_digit", "is_numeric", "is_digit"}
    ok = bool(classes & digits)
    R.ob("C13-R6", "digits-in-langtag", "the language-tag scanner accepts digits (character classes used: %s)" % sorted(classes), ok, where=b.where(),
         detail=None if ok else "`\"colectivo\"@es-419` is split into `\"colectivo\"@es-` and a stray `419`")


LOADER_ENTRIES = ["parse_ntriples_and_add", "parse_nquads_and_add", "parse_turtle", "parse_n3"]
DECODERS = ("clean_ntriples_term", "clean_turtle_term", "turtle_term", "decode_literal_escapes", "unescape_literal", "encode_loaded_term")


def _loader_roots(prog):
    out = []
    for k, b in sorted(prog.bodies.items()):
        if b.self_adt != SD or b.is_closure or is_test(b) or not b.name.startswith("parse_"):
            continue
        out.append(b)
    return out


def r7(R):
    prog = R.prog
    n = 0
    nfind = 0
    for root in _loader_roots(prog):
        for k in sorted(prog.reachable([root.key])):
            x = prog.bodies.get(k)
            if x is None or x.crate != "kolibrie" or not x.file.endswith("sparql_database.rs") or is_test(x):
                continue
            for c in x.calls():
                if c.name() not in ("find", "rfind", "split", "split_once", "splitn") or len(c.args) < 2:
                    continue
                nfind += 1
                pat = c.args[1]
                d = str((F.op_const(pat) or {}).get("d") or "")
                if d not in ("'#'", "\"#\""):
                    continue
                n += 1
                rootname = prog.bodies[x.root].name if x.is_closure and x.root in prog.bodies else x.name
                R.ob("C13-R7", "hash-cut:%s" % rootname, "%s does not cut lines at the first `#`" % rootname, False, where=x.where(c.ln),
                     detail="`%s('#')` on a document line: an IRI with a fragment or a literal containing `#` is truncated there and the rest of the "
                            "statement (and its terminator) is lost" % c.name())
    R.floor("C13-R7", "character searches / splits in the loaders", nfind, 5)
    R.ob("C13-R7", "scanned", "loaders scanned for `#` searches (%d searches, %d on `#`)" % (nfind, n), True)


def r8(R):
    prog = R.prog
    found = 0
    for ent in LOADER_ENTRIES:
        b = prog.one("SparqlDatabase::" + ent, crate="kolibrie")
        R.anchor("C13-R8", ent, b)
        if b is None:
            continue
        found += 1
        reach = prog.reachable([b.key])
        names = {prog.bodies[k].name for k in reach if k in prog.bodies and prog.bodies[k].crate == "kolibrie"}
        dec = sorted(n for n in names if n in DECODERS)
        R.ob("C13-R8", "decodes:" + ent, "%s reaches a literal decoder (%s)" % (ent, ", ".join(dec) or "none"), bool(dec), where=b.where(),
             detail=None if dec else "object tokens are resolved and encoded as written: `\"v\"@fr` is stored with its quotes while the N-Triples loader stores `v@fr`")
    R.floor("C13-R8", "text loader entry points", found, 4)


def r9(R):
    prog = R.prog
    n = 0
    for ent in ("parse_rdf", "parse_rdf_from_file"):
        b = prog.one("SparqlDatabase::" + ent, crate="kolibrie")
        R.anchor("C13-R9", ent, b)
        if b is None:
            continue
        n += 1
        fam = prog.family(b.key)
        # the event dispatch: a switch on quick_xml's Event discriminant
        ev = []
        for x in fam:
            for bb, t in x.terms():
                if t["t"] != "switch":
                    continue
                dsc = G.describe_discr(x, t["discr"])
                if dsc.get("kind") == "discr" and (dsc.get("adt") or "").endswith("events::Event"):
                    ev.append((x, bb, t))
        R.ob("C13-R9", "dispatch:" + ent, "%s dispatches on the XML event kind" % ent, bool(ev), where=b.where())
        if not ev:
            continue
        x, bb, t = max(ev, key=lambda e: len(e[2]["targets"]))
        edges = G.edge_conditions(x, bb)
        vnames = [cd.get("variant") for tgt, cd in edges if cd.get("variant")]

        def arm_blocks(variant):
            tg = [tgt for tgt, cd in edges if cd.get("variant") == variant]
            if not tg:
                return set()
            others = [tgt for tgt, cd in edges if cd.get("variant") != variant]
            return x.reach_from(tg, avoid=set(others) | {bb}) | set(tg)
        if "Text" not in vnames:
            R.ob("C13-R9", "event-type:" + ent, "the event dispatch of %s has a Text arm (arms: %s)" % (ent, vnames), False, where=b.where())
            continue
        text_arm = arm_blocks("Text")
        end_arm = arm_blocks("End")
        ref_arm = arm_blocks("GeneralRef")
        emits = lambda blocks: [c for c in x.calls() if c.bb in blocks and c.name() == "push" and "Triple" in x.local_ty(F.op_place(c.args[1])["l"]) ] if blocks else []
        def emits_in(blocks):
            out = []
            for c in x.calls():
                if c.bb in blocks and c.name() == "push" and len(c.args) > 1 and F.op_place(c.args[1]) is not None and "Triple" in x.local_ty(F.op_place(c.args[1])["l"]):
                    out.append(c)
            return out
        te, ee = emits_in(text_arm), emits_in(end_arm)
        R.ob("C13-R9", "text-does-not-emit:" + ent, "%s does not emit a triple per Text event" % ent, not te, where=x.where(te[0].ln if te else None),
             detail=None if not te else "character data arrives in pieces (every entity reference is an event of its own): one triple per piece splits the literal")
        R.ob("C13-R9", "end-emits:" + ent, "%s emits the literal when the property element ends" % ent, bool(ee), where=x.where(ee[0].ln if ee else None))
        R.ob("C13-R9", "references-kept:" + ent, "%s handles entity references (GeneralRef events)" % ent, bool(ref_arm) and any(c.bb in ref_arm for c in x.calls()),
             where=x.where(), detail=None if ref_arm else "`&amp;` `&lt;` `&#233;` inside a literal are dropped")
    R.floor("C13-R9", "RDF/XML loaders", n, 2)



def r10(R):
    prog = R.prog
    nscan = 0
    seen_bodies = set()
    for root in _loader_roots(prog) + [b for b in prog.bodies.values() if b.self_adt == SD and not b.is_closure and not is_test(b) and b.name.startswith("generate_")]:
        for k in sorted(prog.reachable([root.key])):
            x = prog.bodies.get(k)
            if x is None or k in seen_bodies or x.crate != "kolibrie" or not x.file.endswith("sparql_database.rs") or is_test(x):
                continue
            seen_bodies.add(k)
            # a scanner: switches on / compares a char with the quote character
            quote = False
            for bb, t in x.terms():
                if t["t"] == "switch" and any(v == "34" for v, tg in t["targets"]) and "char" in x.local_ty((F.op_place(t["discr"]) or {"l": 0})["l"]):
                    quote = True
            cmps = []
            for bb, i, pl, rv, st in x.assigns():
                if rv["rv"] == "binop" and rv["op"] in ("Eq", "Ne"):
                    for me, other in ((rv["a"], rv["b"]), (rv["b"], rv["a"])):
                        if me.get("k") == "const" and me.get("ty") == "char":
                            if me.get("v") == "34":
                                quote = True
                            if me.get("v") == "92":
                                cmps.append((bb, other, st))
            if not quote:
                continue
            nscan += 1
            bad = []
            for bb, other, st in cmps:
                pl = F.op_place(other)
                if pl is None:
                    continue
                # resolve the compared local through copies
                cur, seen = pl["l"], set()
                while cur not in seen:
                    seen.add(cur)
                    ds = [d for d in x.defs().get(cur, []) if d[0] == "assign" and d[3]["rv"] == "use" and F.op_place(d[3]["op"]) is not None]
                    if x.local_name(cur) or len(x.defs().get(cur, [])) != 1 or not ds:
                        break
                    cur = F.op_place(ds[0][3]["op"])["l"]
                # a look-back variable: a named char local with a constant initialiser and a second definition copying another char local
                ds = x.defs().get(cur, [])
                init_const = any(d[0] == "assign" and d[3]["rv"] == "use" and d[3]["op"].get("k") == "const" for d in ds)
                copies = [d for d in ds if d[0] == "assign" and d[3]["rv"] == "use" and F.op_place(d[3]["op"]) is not None and x.local_ty(F.op_place(d[3]["op"])["l"]) == "char"]
                if x.local_ty(cur) == "char" and init_const and copies:
                    bad.append((st.get("ln") if isinstance(st, dict) else None, x.local_name(cur) or "_%d" % cur))
            rootname = prog.bodies[x.root].name if x.is_closure and x.root in prog.bodies else x.name
            R.ob("C13-R10", "no-look-back:" + rootname, "%s does not decide escapes by the previous character" % rootname, not bad, where=x.where(bad[0][0] if bad else None),
                 detail=None if not bad else "`%s` (the previous character) is compared with a backslash: `\"C:\\\\\"` ends with an escaped backslash, so its closing "
                 "quote is taken for an escaped one and everything after it is read with the in-literal state inverted" % bad[0][1])
    R.floor("C13-R10", "character scanners (functions that look for the quote character) in the loaders and writers", nscan, 4)



def r11(R):
    from c14 import const_text
    prog = R.prog
    FIRST = ("split_once", "splitn", "find", "split", "split_at", "strip_prefix", "char_indices", "position", "split_terminator")
    LAST = ("rsplit_once", "rsplitn", "rfind", "rsplit", "rposition", "rsplit_terminator", "rmatch_indices")
    n = 0
    for k, b in sorted(prog.bodies.items()):
        if b.crate != "kolibrie" or b.is_closure or is_test(b) or not (b.file.endswith("sparql_database.rs") or b.file.endswith("parser.rs") or b.file.endswith("utils.rs")):
            continue
        fam = prog.family(k)
        # looks a prefix up: `get` on a HashMap<String, String>
        looks = [c for x in fam for c in x.calls() if c.name() in ("get", "contains_key") and c.args and F.op_place(c.args[0]) is not None
                 and "HashMap<alloc::string::String, alloc::string::String>" in x.local_ty(x.alias_root(c.args[0]) or 0)]
        if not looks:
            continue
        cuts = []
        for x in fam:
            for c in x.calls():
                if c.name() in FIRST + LAST and any(const_text(a) == ":" for a in c.args if a.get("k") == "const"):
                    cuts.append((x, c))
        if not cuts:
            continue
        n += 1
        R.saw(b)
        bad = [(x, c) for x, c in cuts if c.name() in LAST]
        R.ob("C13-R11", "first-colon:" + b.name, "%s cuts the term at its first colon (cuts: %s)" % (b.name, sorted({c.name() for x, c in cuts})), not bad,
             where=(bad[0][0].where(bad[0][1].ln) if bad else b.where()),
             detail=None if not bad else "`%s(':')` takes everything up to the LAST colon as the prefix" % bad[0][1].name())
    R.floor("C13-R11", "prefix expanders (prefix-map lookup keyed by a piece cut at `:`)", n, 2)


def r12(R):
    """a test for UTF-16 surrogates is a closed range"""
    prog = R.prog
    R.rule("C13-R12", "surrogate tests are closed ranges: wherever a literal decoder or term cleaner compares a code point with the first surrogate "
                      "U+D800 by order (>=, >, <, <=), the same value is also compared with the end of the range it means (U+DBFF / U+DC00 for the high "
                      "half, U+DFFF / U+E000 for all surrogates). A test that is open above treats every character from U+E000 to U+FFFF - full-width "
                      "forms, presentation forms, private use, U+FFFD - as half of a pair: the decoder gives up and the cleaner stores the raw "
                      "surface text, so the escaped and the raw spelling of one literal load as different terms")
    n = 0
    UPPER = {0xDBFF, 0xDC00, 0xDFFF, 0xE000}
    for b in sorted(prog.bodies.values(), key=lambda x: x.key):
        if b.crate not in ("kolibrie", "shared") or "::tests::" in b.key:
            continue
        cmps = [(bb, rv, st) for bb, i, pl, rv, st in b.assigns() if rv["rv"] == "binop" and rv["op"] in ("Ge", "Gt", "Lt", "Le")]
        opens = []
        for bb, rv, st in cmps:
            for x, k in ((rv["a"], rv["b"]), (rv["b"], rv["a"])):
                if F.const_int(k) == 0xD800 and F.op_place(x) is not None:
                    opens.append((bb, x, st))
        for bb, x, st in opens:
            n += 1
            R.saw(b)
            root = b.alias_root(x)
            closed = False
            for bb2, rv2, st2 in cmps:
                for y, k in ((rv2["a"], rv2["b"]), (rv2["b"], rv2["a"])):
                    if F.const_int(k) in UPPER and F.op_place(y) is not None and (b.alias_root(y) == root or F.op_local(y) == F.op_local(x)):
                        closed = True
            # `(0xD800..=0xDBFF).contains(&x)` compiles to a call, not to these comparisons; a match on a range pattern gives both comparisons
            R.ob("C13-R12", "closed:%s:%d" % (b.short, n), "the comparison of a code point with U+D800 in %s has its upper bound" % b.short, closed, where=b.where(st.get("ln")),
                 detail=None if closed else "`\\uFF0C` (full-width comma) is >= 0xD800: it is taken for a high surrogate, no low half follows, the literal is not decoded")
    R.ob("C13-R12", "scanned", "order comparisons with U+D800 in the loaders and cleaners: %d" % n, True)


def r13(R, rid="C13-R13", only_quoted=False):
    """every line loader removes a trailing comment with a scanner that knows IRIs and literals"""
    prog = R.prog
    from c14 import _char_consts
    if only_quoted:
        R.rule(rid, "an exported nested quoted triple re-imports: the exporters write the terms of `<< >>` without delimiters, also when a quoted "
                    "triple is itself a term of a quoted triple, so the comment scanner every line loader applies must keep the *nesting depth* "
                    "of `<<` / `>>` (a counter that the `#` cut compares with zero) - a flag cleared by the first `>>` takes a `#` in the rest of "
                    "the outer quoted triple for a comment and the statement is lost on re-import")
    else:
      R.rule("C13-R13", "a comment may follow a statement: N-Triples, N-Quads and Turtle allow `<s> <p> <o> . # note`. Every line loader therefore reaches, "
                      "before it tests the statement terminator or tokenises the line, a comment scanner that dispatches on `#` and on the delimiters "
                      "of IRIs (`<`, `>`) and literals (`\"`) - so that a `#` inside an IRI fragment or a string is not taken for a comment. A loader that "
                      "only skips lines *starting* with `#` drops the statement (`missing dot`) or reads the words of the comment as another triple")
    found = 0
    quoted_checked = set()
    for ent in LOADER_ENTRIES:
        b = prog.one("SparqlDatabase::" + ent, crate="kolibrie")
        if b is None:
            continue
        found += 1
        R.saw(b)
        reach = [prog.bodies[k] for k in prog.reachable([b.key]) if k in prog.bodies and prog.bodies[k].crate == "kolibrie"]
        scanners = []
        for y in reach:
            if y.is_closure or y.local_ty(0) not in ("&str", "alloc::string::String", "core::option::Option<&str>", "alloc::borrow::Cow<'_, str>"):
                continue
            cs = _char_consts(prog, y) or set()
            if {35, 60, 62, 34} <= cs:
                scanners.append(y)
                # inside `<< >>` the exporters write terms without delimiters: the scanner counts the nesting and cuts only at depth zero
                if y.key not in quoted_checked:
                    quoted_checked.add(y.key)
                    counters = set()
                    for bb, i, pl, rv, st in y.assigns():
                        if rv["rv"] in ("binop", "checked_binop") and str(rv["op"]).startswith(("Add", "Sub")) and (F.const_int(rv["a"]) == 1 or F.const_int(rv["b"]) == 1):
                            for o in (rv["a"], rv["b"]):
                                r0 = y.alias_root(o) if F.op_place(o) else None
                                if r0 is not None and y.local_ty(r0) in ("usize", "u32", "i32", "u64", "isize", "u8", "u16"):
                                    counters.add(r0)
                    # the cut: a slice of the line taken under the `#` test (the early return leaves the scanning loop, so it is not part of the loop body)
                    cuts = [(c.bb, {"ln": c.ln}) for c in y.calls() if c.name() in ("index", "get", "split_at", "get_unchecked")
                            and any(cd.get("kind") == "intval" or cd.get("kind") == "cmp" for cd in G.conditions(y, c.bb))]
                    guarded = False
                    for bb, st in cuts:
                        for cd in G.conditions(y, bb):
                            if cd.get("kind") == "cmp":
                                n = G.normalize_cmp(y, cd)
                                if n and any(F.op_place(o) and y.alias_root(o) in counters for o in (n[1], n[2])) and any(F.const_int(o) == 0 for o in (n[1], n[2])):
                                    guarded = True
                    R.ob(rid, "quoted-aware:" + y.name, "%s cuts a line at `#` only outside `<< >>` (nesting counters: %d; the cut is guarded by one: %s)"
                         % (y.name, len(counters), guarded), guarded, where=y.where(),
                         detail=None if guarded else "the exporters write `<< http://e/s#a http://e/p v >>`: a scanner that does not count `<<` / `>>` cuts the exported line "
                         "at the fragment, the statement loses its terminator and is dropped on re-import")
        # the scanner is applied to the raw line: called from the body that splits the document into lines (not only from a deeper tokenizer)
        liners = [y for y in reach if not y.is_closure and any(c.name() == "lines" for x in prog.family(y.key) for c in x.calls())]
        direct = [y for y in scanners if any(c.key == y.key for ln in liners for x in prog.family(ln.key) for c in x.calls())]
        if only_quoted:
            continue
        R.ob("C13-R13", "strips:" + ent, "%s removes a trailing comment with an IRI- and literal-aware scanner (found: %s)" % (ent, sorted(y.name for y in direct) or "none"),
             bool(direct), where=b.where(),
             detail=None if direct else "`<s> <p> \"v\" . # note` is rejected as `missing dot` (N-Triples, N-Quads) or yields the extra triple (`#`, `note`, ..) (Turtle)")
    R.floor(rid, "line loaders", found, 4)
    if only_quoted:
        R.floor(rid, "comment scanners judged", len(quoted_checked), 1)


def r14(R):
    """the XML reader hands character data on as written"""
    prog = R.prog
    R.rule("C13-R14", "character data is not trimmed by the reader: the RDF/XML loaders do not switch on quick-xml's `trim_text*` (or `trim_markup*`) options. "
                      "The reader delivers a literal that contains entity references as several text events; trimming trims *each piece*: "
                      "`Tom &amp; Jerry` is stored as `Tom&Jerry`, and leading / trailing blanks of every literal vanish - the terms are no longer as written, "
                      "and the same triples loaded from N-Triples differ")
    n = 0
    for nm in ("parse_rdf", "parse_rdf_from_file"):
        b = prog.one("SparqlDatabase::" + nm, crate="kolibrie")
        if not R.anchor("C13-R14", nm, b):
            continue
        n += 1
        R.saw(b)
        bad = [c for x in prog.family(b.key) for c in x.calls() if c.name().startswith("trim_text") or c.name() in ("trim_markup_names_in_closing_tags",)
               and not (len(c.args) >= 2 and F.const_int(c.args[1]) == 0)]
        bad = [c for c in bad if not (len(c.args) >= 2 and F.const_int(c.args[1]) == 0)]
        # direct writes to the configuration's fields
        for x in prog.family(b.key):
            for bb, i, pl, rv, st in x.assigns():
                if any(e["k"] == "field" and str(e.get("n", "")).startswith("trim_text") for e in pl["p"]) and not (rv["rv"] == "use" and F.const_int(rv["op"]) == 0):
                    bad.append(type("W", (), {"ln": st.get("ln"), "name": lambda self=None: "config.trim_text = .."})())
        R.ob("C13-R14", "untrimmed:" + nm, "%s leaves character data as the document has it (reader options switched on: %s)" % (nm, [c.name() for c in bad]), not bad,
             where=b.where(bad[0].ln if bad else None))
    R.floor("C13-R14", "RDF/XML loaders", n, 2)


def r16(R):
    """a literal is never prefix-expanded"""
    prog = R.prog
    R.rule("C13-R16", "literals are not names: in the Turtle loader's term resolver (turtle_term) the prefix expander is reached only for a token that does not "
                      "start with a quote - the call of resolve_query_term is dominated by the false edge of `starts_with('\"')`. A stricter literal "
                      "test (`starts and ends with a quote`) sends `\"ex:thing\"@en` and `\"ex:1\"^^xsd:string` - literals followed by a tag or a datatype - "
                      "through prefix expansion: their text changes with the prefixes in force, and the N-Triples loader stores something else")
    b = prog.one("SparqlDatabase::turtle_term", crate="kolibrie")
    if not R.anchor("C13-R16", "turtle_term", b):
        return
    R.saw(b)
    calls = [c for c in b.calls() if c.name() == "resolve_query_term"]
    R.ob("C13-R16", "expands", "turtle_term expands prefixed names through resolve_query_term (found %d call)" % len(calls), len(calls) >= 1, where=b.where())
    for c in calls:
        ok = False
        for cd in G.conditions(b, c.bb):
            cc = cd.get("call")
            if cd.get("kind") == "call" and cc is not None and cc.name() == "starts_with" and cd.get("truth") is False and any(
                    a.get("k") == "const" and (str(a.get("v")) == "34" or '"' in (F.const_strs(a) or [])) for a in cc.args):
                ok = True
        R.ob("C13-R16", "not-for-literals", "the prefix expander is called only for tokens that do not start with a quote", ok, where=b.where(c.ln),
             detail=None if ok else "`ex:s ex:label \"ex:thing\"@en .` stores `http://example.org/thing@en`")

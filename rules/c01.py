"""C01 — SELECT answers equal the SPARQL algebra: table agreement, no silent drops, input propagation, finalizer agreement."""
from lib import facts as F
from lib import guards as G
from lib.taint import Taint
import c02

GGP = "shared::query::GroupGraphPattern"
LOP = c02.LOP
POP = c02.POP


def eq_keys(prog, body):
    """string literals a body compares a value against (match arms on &str): {literal}"""
    out = set()
    for x in prog.family(body.key):
        for c in x.calls():
            if c.name() in ("eq", "ne") and len(c.args) == 2:
                for a in c.args:
                    s = F.const_str(a)
                    if s is None and F.op_place(a) is not None:
                        o = x.origin(a, stop_named=False)
                        if o[0] == "const":
                            s = F.const_str(o[1])
                    if s is not None:
                        out.add(s)
    return out


def all_str_consts(prog, body):
    """string literals of a body and its closures, including those inside constant tables it references"""
    out = set()
    for x in prog.family(body.key):
        for bb, i, pl, rv, s in x.assigns():
            for op in F.rv_operands(rv):
                out.update(F.const_strs(op))
        for c in x.calls():
            for a in c.args:
                out.update(F.const_strs(a))
    return out


def run(R):
    prog = R.prog
    R.rule("C01-R1", "aggregate table: every aggregate keyword the projection parser can emit is handled by an explicit arm of both "
                     "aggregators, and the two aggregators handle the same set")
    R.rule("C01-R2", "comparison-operator table: every operator the filter parser can emit is handled by an explicit arm of both "
                     "comparators")
    R.rule("C01-R3", "no silent default: the three semantic walkers (lowering, planning, execution) match every variant explicitly "
                     "or by a default arm that delegates; a default that returns a constant / its input is a silent drop")
    R.rule("C01-R4", "input bindings are consumed on every executor arm: no path through an arm returns without using `incoming`")
    R.rule("C01-R5", "scan scope is carried: every scan built by the lowering takes its graph from the current graph scope, and the "
                     "GRAPH arm recurses with the compiled graph term")
    R.rule("C01-R6", "the two SELECT finalizers agree: whether rows are grouped depends on both the GROUP BY list and the presence "
                     "of aggregates, in both; and the modifier order is aggregate, order, distinct, limit")
    R.rule("C01-R8", "duplicate elimination is total and keyed on the whole item: the merged default graph (several FROM graphs) and "
                     "DISTINCT decide `already seen` for EVERY item by inserting its full key (subject, predicate, object / every "
                     "variable-value pair of the row) into the seen-set; nothing is emitted on a path that skipped the test, except "
                     "under `there is at most one source graph`")
    R.rule("C01-R9", "collection operators are complete: the UNION arm executes EVERY branch on the incoming solutions and appends all of its "
                     "rows (multiplicity preserved), the VALUES arm turns EVERY data row into a solution (an all-UNDEF row included) and "
                     "joins them with the incoming solutions; no iteration is skipped")
    R.rule("C01-R10", "lowering is complete and filters are group-scoped: the lowering of a basic graph pattern appends a scan for EVERY triple "
                      "pattern; the lowering of a group handles EVERY member (deferred filter, BIND, or joined sub-plan - no member is "
                      "skipped); every deferred FILTER becomes a selection, and only after all other members of the group were lowered; "
                      "UNION lowers every branch")
    R.rule("C01-R11", "no component of a pattern / operator is ignored: the lowering, the planner and the executor each read EVERY field of "
                      "EVERY variant of the enum they walk (one audited exception: the diagnostic label of an in-memory buffer)")
    R.rule("C01-R12", "match-or-bind in the scan layer: wherever a scan, a GRAPH ?g evaluation or a quoted-triple match extends a solution with "
                      "a variable, it first looks that variable up in the same solution - it binds only when absent and compares (and "
                      "rejects on mismatch) when present; match_quad stages fresh bindings only for variables that are bound neither in "
                      "the incoming solution nor earlier in the same pattern")
    R.rule("C01-R13", "GRAPH ?g visits every visible named graph: for an unbound graph variable the executor runs the inner pattern once per "
                      "named graph of the query dataset (all of them, no truncation) with ?g bound to that graph; an iteration is skipped only "
                      "because the graph does not exist or is not a named graph; for a bound ?g the pattern runs iff that graph is visible "
                      "and exists")
    R.rule("C01-R16", "graph scope survives a scope reset: a subquery is evaluated from fresh bindings, so inside `GRAPH ?g { { SELECT .. } }` the row no "
                      "longer binds ?g. (a) the executor arm that restarts from fresh bindings hands the same execution context (with its active "
                      "graph) to the inner plan; (b) a scan whose graph variable is unbound in its row consults the context's active graph before it "
                      "ranges over all named graphs - otherwise the subquery is evaluated over every graph and, ?g projected away, joined to "
                      "the patterns of whichever graph is current")
    R.rule("C01-R17", "FILTER is three-valued: an expression over an unbound variable or over operands that cannot be compared raises an error, the "
                      "solution is dropped, and `!` of an error is an error. (a) the recursive filter evaluators return a type that can express the "
                      "error (not a plain bool) and never negate a value obtained by collapsing a sub-result to a bool (`unwrap_or(false)`, `== "
                      "Some(true)`); (b) the comparators never substitute a default number for an operand that does not parse as a number - "
                      "`?age < 30` must not keep an IRI or the string \"unknown\" as if it were 0")
    R.rule("C01-R18", "FILTER scope is its own group: a FILTER inside a nested group must not see variables that are bound only outside that group "
                      "(in the algebra they are unbound there and the comparison is an error). The executor hands the incoming solutions down into "
                      "every operand, so the rows a Filter evaluates also carry outer bindings: either the Filter's input is evaluated from fresh "
                      "bindings, or the row is restricted to the input's own variables before the condition is evaluated")
    R.rule("C01-R19", "SUM over no solutions is 0: in both aggregators a floating-point `Iterator::sum` (which yields -0.0 for an empty "
                      "iterator) is never formatted as it is - it is folded from +0.0, adjusted by arithmetic, or guarded by a non-emptiness test; "
                      "otherwise an empty group prints \"-0\"")
    R.rule("C01-R20", "a dataset clause replaces the dataset: when a query has FROM or FROM NAMED, its default graph is the merge of the FROM graphs "
                      "and its named graphs are the FROM NAMED graphs - both possibly empty. In build_dataset_view the two lists handed to "
                      "DatasetView::new derive from `query.from` and `query.from_named` only (never from the stored catalog), and the stored "
                      "dataset (`from_database`) is used only when both clauses are absent")
    R.rule("C01-R14", "ORDER BY comparators (top level and subquery) agree and are lexicographic over ALL keys: each walks every sort key in "
                      "order, compares numerically when both values parse as numbers and lexically otherwise, reverses exactly under "
                      "DESC, returns at the first key that is not Equal and Equal only after the last key")
    R.rule("C01-R15", "the solution sequence is cut only by the finalizers: between the executor's result and finalize_select / "
                      "finalize_subquery no code truncates, drains, pops or de-duplicates the rows (LIMIT and DISTINCT act after "
                      "aggregation and ordering - an aggregate without GROUP BY still ranges over all solutions)")
    R.rule("C01-R7", "plan memo completeness (shared with C02-R1): two different sub-plans of one query never share a memo entry")
    r1(R)
    r2(R)
    r3(R)
    r4(R)
    r5(R)
    r6(R)
    r7(R)
    r8(R)
    r9(R)
    r10(R)
    r11(R)
    r12(R)
    r13(R)
    r16(R)
    r17(R)
    r18(R)
    r19(R)
    r20(R)
    r21(R)
    r22(R)
    r14(R)
    r15(R)


def r1(R):
    prog = R.prog
    w = R.body("C01-R1", "parser::sparql_aggregate", crate="kolibrie")
    readers = [R.body("C01-R1", "execute_query::aggregate_rows", crate="kolibrie"),
               R.body("C01-R1", "ExecutionEngine::aggregate_subquery_rows", crate="kolibrie")]
    if w is None or None in readers:
        return
    emitted = {s for s in all_str_consts(prog, w) if s.isalpha() and s.isupper() and s != "AS"}
    R.floor("C01-R1", "aggregate keywords emitted by the parser", len(emitted), 4)
    sets = []
    for rd in readers:
        keys = {k for k in eq_keys(prog, rd) if k.isalpha() and k.isupper() and k not in ("VAR",)}
        sets.append(keys)
        for kw in sorted(emitted):
            R.ob("C01-R1", "handled:%s:%s" % (rd.name, kw), "%s has an explicit arm for %s" % (rd.name, kw), kw in keys, where=rd.where(),
                 detail=None if kw in keys else "the column is silently dropped")
    R.ob("C01-R1", "readers-equal", "both aggregators handle the same aggregate kinds (%s / %s)" % (sorted(sets[0]), sorted(sets[1])),
         sets[0] == sets[1], where=readers[1].where())


def r2(R):
    prog = R.prog
    w = R.body("C01-R2", "parser::sparql_filter_operator", crate="kolibrie")
    rl = R.body("C01-R2", "Condition::compare_lexical", crate="kolibrie")
    rn = R.body("C01-R2", "Condition::compare_numeric", crate="kolibrie")
    if w is None or rl is None or rn is None:
        return
    ops = {s for s in all_str_consts(prog, w) if s and all(ch in "!<>=" for ch in s)}
    R.floor("C01-R2", "comparison operators emitted by the parser", len(ops), 6)
    for rd in (rl, rn):
        keys = eq_keys(prog, rd)
        for op in sorted(ops):
            R.ob("C01-R2", "handled:%s:%s" % (rd.name, op), "%s has an explicit arm for `%s`" % (rd.name, op), op in keys, where=rd.where(),
                 detail=None if op in keys else "the comparison silently evaluates to false")
    # both evaluators reach both comparators
    for nm in ("Condition::evaluate_filter_with_ids", "Condition::evaluate_filter"):
        ev = prog.one(nm, crate="kolibrie")
        if ev is None:
            continue
        reach = prog.reachable([ev.key])
        for cmp_b in (rl, rn):
            R.ob("C01-R2", "reaches:%s:%s" % (ev.name, cmp_b.name), "%s can use %s" % (ev.name, cmp_b.name), cmp_b.key in reach, where=ev.where())


def _dispatch_switches(b, adt):
    """switches on the discriminant of `adt` applied to (a deref of) a parameter or loop item"""
    out = []
    for bb, t in b.terms():
        if t["t"] != "switch":
            continue
        d = G.describe_discr(b, t["discr"])
        if d["kind"] == "discr" and d.get("adt") == adt:
            out.append((bb, t, d))
    return out


def r3(R):
    prog = R.prog
    walkers = [("utils::build_logical_plan_from_group_in_scope", GGP), ("Streamertail::find_best_plan_recursive", LOP),
               ("ExecutionEngine::execute_with_ids_and_input", POP)]
    for nm, adt in walkers:
        b = R.body("C01-R3", nm, crate="kolibrie")
        if b is None:
            continue
        sws = _dispatch_switches(b, adt)
        R.ob("C01-R3", "dispatch:" + b.name, "%s dispatches on %s" % (b.name, adt.rsplit("::", 1)[-1]), bool(sws), where=b.where())
        a = prog.adt(adt)
        nvar = len(a["variants"]) if a else 0
        for bb, t, d in sws:
            names = {v: n for v, n in d["variants"]}
            explicit = [names.get(v, v) for v, _ in t["targets"]]
            rest = [n for n in names.values() if n not in explicit]
            other = t["otherwise"]
            if len({tgt for _, tgt in t["targets"]}) < 2 and rest:
                continue      # an `if let` / `matches!(x, A | B)` test is a guard (one explicit target), not a dispatch
            if b.blocks[other]["term"]["t"] == "unreachable" or not rest:
                R.ob("C01-R3", "exhaustive:%s:%d" % (b.name, _ord(b, bb, sws)), "%s matches every variant explicitly (%d of %d)"
                     % (b.name, len(explicit), nvar), True, where=b.where(t.get("ln")))
                continue
            # default arm must delegate: call the walker itself (or another workspace walker) on the scrutinee
            region = {k for k in b.reachable_blocks() if b.dominates(other, k)} if b.pred(other) == [bb] else {other}
            deleg = [c for c in b.calls() if c.bb in region and c.key in prog.bodies and prog.bodies[c.key].crate == "kolibrie"]
            # nested dispatch inside another arm (e.g. Join lowering matching on Filter/Bind first) is fine when it delegates
            ok = bool(deleg)
            R.ob("C01-R3", "default-delegates:%s:%d" % (b.name, _ord(b, bb, sws)), "the default arm of %s (covering %s) delegates to a walker"
                 % (b.name, rest), ok, where=b.where(t.get("ln")), detail=None if ok else "these constructs are silently dropped or passed through")


def _ord(b, bb, sws):
    return sorted(x[0] for x in sws).index(bb)


def r4(R):
    prog = R.prog
    b = R.body("C01-R4", "ExecutionEngine::execute_with_ids_and_input", crate="kolibrie")
    if b is None:
        return
    inc = None
    for i in range(1, b.nargs + 1):
        if b.local_name(i) == "incoming":
            inc = i
    R.anchor("C01-R4", "parameter incoming", inc)
    if inc is None:
        return
    sws = _dispatch_switches(b, POP)
    top = [s for s in sws if _is_param_switch(b, s[2])]
    R.ob("C01-R4", "dispatch", "the executor dispatches on its operator parameter", len(top) >= 1, where=b.where())
    if not top:
        return
    bb, t, d = top[0]
    names = {v: n for v, n in d["variants"]}
    # blocks that use `incoming` (move, borrow, pass)
    use_blocks = set()
    aliases = {inc}
    changed = True
    while changed:
        changed = False
        for bb2, i, pl, rv, s in b.assigns():
            if not pl["p"] and pl["l"] not in aliases:
                if rv["rv"] in ("use", "ref", "cast"):
                    src = rv.get("pl") or F.op_place(rv.get("op") or {})
                    if src is not None and src["l"] in aliases:
                        aliases.add(pl["l"])
                        changed = True
    for l in aliases:
        for (ub, where, kind, p) in b.uses().get(l, []):
            blk = b.blocks[ub]
            if blk.get("cleanup"):
                continue
            # a Drop of incoming is not a use
            if kind == "drop":
                continue
            if where[0] == "term":
                use_blocks.add(ub)
            else:
                # plain aliasing copies are not uses by themselves; calls/aggregates are
                st = blk["st"][where[1]]
                if st["rv"]["rv"] in ("aggregate",) or (st["pl"]["l"] == 0 and not st["pl"]["p"]):
                    use_blocks.add(ub)
    # loops whose body uses incoming count as a using node
    for h, body in b.loops():
        if body & use_blocks:
            use_blocks |= body
    exits = set(b.exits())
    narm = 0
    for v, tgt in t["targets"]:
        nm = names.get(v, v)
        narm += 1
        reach = b.reach_from([tgt], avoid=use_blocks)
        ok = not (reach & exits) or tgt in use_blocks
        R.ob("C01-R4", "uses-incoming:" + str(nm), "the %s arm consumes the input bindings on every path" % nm, ok, where=b.where(),
             detail=None if ok else "an arm that ignores its input breaks GRAPH ?g / VALUES / BIND / bind-join propagation")
    R.floor("C01-R4", "executor arms", narm, 14)


def _is_param_switch(b, d):
    o = b.origin({"k": "copy", "pl": d["pl"]}, stop_named=False)
    return o[0] == "place" and 1 <= o[1]["l"] <= b.nargs


def r5(R):
    prog = R.prog
    b = R.body("C01-R5", "utils::build_logical_plan_from_group_in_scope", crate="kolibrie")
    if b is None:
        return
    gs = None
    for i in range(1, b.nargs + 1):
        if b.local_name(i) == "graph_scope":
            gs = i
    R.anchor("C01-R5", "parameter graph_scope", gs)
    if gs is None:
        return
    QP = "shared::dataset_index::QuadPattern"
    n = 0
    for x in prog.family(b.key):
        for bb, i, pl, rv, s in x.assigns():
            if rv["rv"] == "aggregate" and rv.get("adt") == QP:
                n += 1
                op = rv["ops"][rv["fields"].index("graph")]
                ok = _from_param(x, b, op, gs)
                R.ob("C01-R5", "scan-scope:%d" % n, "a scan built by the lowering carries the current graph scope", ok, where=x.where(s.get("ln")),
                     detail=None if ok else "the scan would read the wrong graph (default vs named)")
    R.floor("C01-R5", "scan constructions in the lowering", n, 1)
    # recursive calls: pass graph_scope through, except in the Graph arm where the compiled term is passed
    rec = [c for c in b.calls() if c.key == b.key]
    R.floor("C01-R5", "recursive lowering calls", len(rec), 2)
    sws = _dispatch_switches(b, GGP)
    graph_region = set()
    for bb, t, d in sws:
        if not _is_param_switch(b, d):
            continue
        for tgt, c in G.edge_conditions(b, bb):
            if c["kind"] == "variant" and c.get("variant") == "Graph":
                graph_region = {k for k in b.reachable_blocks() if b.dominates(tgt, k)}
    for n2, c in enumerate(sorted(rec, key=lambda x: x.bb)):
        passes_scope = _from_param(b, b, c.args[3], gs)
        if c.bb in graph_region:
            compiled = _from_call(b, c.args[3], ("compile_graph_term",))
            R.ob("C01-R5", "graph-arm-scope", "the GRAPH arm lowers its inner pattern under the compiled graph term", compiled and not passes_scope,
                 where=b.where(c.ln))
        else:
            R.ob("C01-R5", "scope-passed:%d" % n2, "nested patterns are lowered under the current graph scope", passes_scope, where=b.where(c.ln))
    R.ob("C01-R5", "graph-arm", "the lowering has a GRAPH arm with a recursive call", any(c.bb in graph_region for c in rec), where=b.where())


def _from_param(x, root, op, param, depth=0):
    """operand derives (clone / reference) from parameter `param` of the root body"""
    if depth > 8:
        return False
    o = x.origin(op, stop_named=False)
    if o[0] == "place":
        l = o[1]["l"]
        if x.key == root.key and l == param:
            return True
        if x.is_closure and l == 1:
            return False
        d = x.single_def(l)
        if d and d[0] == "call" and d[2].name() in ("clone", "to_owned", "borrow", "deref", "as_ref") and d[2].args:
            return _from_param(x, root, d[2].args[0], param, depth + 1)
        return False
    if o[0] == "call" and o[1].name() in ("clone", "to_owned", "borrow", "deref", "as_ref") and o[1].args:
        return _from_param(x, root, o[1].args[0], param, depth + 1)
    return False


def _from_call(x, op, names, depth=0):
    if depth > 10:
        return False
    o = x.origin(op, stop_named=False)
    c = None
    if o[0] == "call":
        c = o[1]
    elif o[0] == "place":
        pl = o[1]
        d = x.single_def(pl["l"])
        if d and d[0] == "call":
            c = d[2]
        elif d and d[0] == "assign":
            src = d[3].get("pl") or F.op_place(d[3].get("op") or {})
            if src is not None:
                return _from_call(x, {"k": "copy", "pl": src}, names, depth + 1)
    if c is None:
        return False
    if c.name() in names:
        return True
    if c.args:
        return _from_call(x, c.args[0], names, depth + 1)
    return False


def _deciders(b, site_bb):
    """switch blocks that decide whether site_bb executes: site reachable from one successor, and an exit reachable
    from another successor without passing the site"""
    out = []
    exits = set(b.exits())
    reach_site = b.reach_to([site_bb])
    for bb, t in b.terms():
        if t["t"] != "switch" or bb not in reach_site or bb == site_bb:
            continue
        succ = b.succ(bb)
        hits = [s for s in succ if s in reach_site]
        miss = [s for s in succ if (b.reach_from([s], avoid={site_bb}) & exits)]
        if hits and miss and (len(set(hits) | set(miss)) > 1):
            out.append((bb, t))
    return out


def r6(R):
    prog = R.prog
    top = R.body("C01-R6", "execute_query::finalize_select", crate="kolibrie")
    sub = R.body("C01-R6", "ExecutionEngine::finalize_subquery", crate="kolibrie")
    agg_sub = R.body("C01-R6", "ExecutionEngine::aggregate_subquery_rows", crate="kolibrie")
    agg_top = R.body("C01-R6", "execute_query::aggregate_rows", crate="kolibrie")
    if None in (top, sub, agg_sub, agg_top):
        return

    def decision_labels(b, site_bb, fieldmap):
        """labels (from fieldmap: field name -> label) of the data the deciders of site_bb depend on"""
        T = Taint(prog, b)
        for x in prog.family(b.key):
            for bb, i, pl, rv, s in x.assigns():
                for p2, kind in F.rv_places(rv):
                    for e in p2["p"]:
                        if e["k"] == "field" and e["n"] in fieldmap:
                            T.t[T._var_of_place(x, pl)].add(fieldmap[e["n"]])
            for c in x.calls():
                for a in c.args:
                    p2 = F.op_place(a)
                    if p2 is not None:
                        for e in p2["p"]:
                            if e["k"] == "field" and e["n"] in fieldmap:
                                T.t[T._var_of_place(x, c.dest)].add(fieldmap[e["n"]])
        T.run()
        labs = set()
        for bb, t in _deciders(b, site_bb):
            labs |= {l for l in T.op_taint(b, t["discr"]) if l in fieldmap.values()}
        return labs
    # top level: the call to aggregate_rows
    calls = [c for c in top.calls() if c.key == agg_top.key]
    R.ob("C01-R6", "top-groups", "finalize_select groups through aggregate_rows", len(calls) == 1, where=top.where())
    if len(calls) == 1:
        labs = decision_labels(top, calls[0].bb, {"group_vars": "groupby", "variables": "projection"})
        ok = labs == {"groupby", "projection"}
        R.ob("C01-R6", "top-decision", "the top-level decision to group depends on the GROUP BY list and on the projection kinds (depends on %s)"
             % sorted(labs), ok, where=top.where(calls[0].ln),
             detail=None if ok else "SELECT ?p WHERE {..} GROUP BY ?p is grouped as a subquery but not at top level")
    # subquery: inside aggregate_subquery_rows the grouping starts at into_values (the early return skips it)
    iv = [c for c in agg_sub.calls() if c.name() in ("into_values", "entry")]
    R.ob("C01-R6", "sub-groups", "aggregate_subquery_rows has a grouping phase", bool(iv), where=agg_sub.where())
    if iv:
        site = min(iv, key=lambda c: c.bb)
        labs = decision_labels(agg_sub, site.bb, {"group_vars": "groupby", "projection": "projection"})
        ok = labs == {"groupby", "projection"}
        R.ob("C01-R6", "sub-decision", "the subquery decision to group depends on the GROUP BY list and on the projection kinds (depends on %s)"
             % sorted(labs), ok, where=agg_sub.where(site.ln))
    # modifier order in both: aggregate -> order -> distinct(retain) -> limit(truncate)
    for b, names in ((top, ["aggregate_rows", "apply_order_by", "retain", "truncate"]),
                     (sub, ["aggregate_subquery_rows", "apply_subquery_order", "retain", "truncate"])):
        seq = []
        for nm in names:
            cs = [c for c in b.calls() if c.name() == nm and (nm not in ("retain",) or "Vec" in (c.pretty or ""))]
            seq.append(cs)
        R.ob("C01-R6", "steps:" + b.name, "%s applies aggregate, order, distinct and limit" % b.name, all(seq), where=b.where())
        if all(seq):
            okord = True
            for i in range(len(seq) - 1):
                for later in seq[i + 1:]:
                    for c2 in later:
                        after = b.reach_from([c2.bb])
                        if any(c1.bb in after and c1.bb != c2.bb for c1 in seq[i]):
                            okord = False
            R.ob("C01-R6", "order:" + b.name, "%s applies the modifiers in the order aggregate, ORDER BY, DISTINCT, LIMIT" % b.name, okord, where=b.where())


def r7(R):
    # the memo-key completeness rule of C02 is a necessary condition of C01 as well
    before = len(R.obs)
    saved = dict(R.rules)
    c02.r1(R)
    for o in R.obs[before:]:
        o["rule"] = "C01-R7"
        o["key"] = o["key"].replace("C02-R1|", "C01-R7|", 1)
    R.rules = saved
    R.rules["C01-R7"] = "plan memo completeness (shared with C02-R1): two different sub-plans of one query never share a memo entry"


# ---------------------------------------------------------------- R8 duplicate elimination

from lib import pipeline as P


def _dedup_sites(prog):
    out = []
    for b in prog.bodies.values():
        if b.crate != "kolibrie" or not (b.file.endswith("execution/engine.rs") or b.file.endswith("execute_query.rs")):
            continue
        if "::tests::" in b.key:
            continue
        for c in b.calls():
            if c.name() == "insert" and len(c.args) == 2 and "HashSet" in (c.pretty or ""):
                out.append((b, c))
    return out


def _len_guard_cut_edges(b):
    """edges (switch block -> target) on which `some collection has more than one element` holds; a bypass of the seen-test is
    harmless only where these edges are NOT taken"""
    cuts = set()
    for bb, t in b.terms():
        if t["t"] != "switch":
            continue
        for tgt, cd in G.edge_conditions(b, bb):
            if cd.get("kind") != "cmp":
                continue
            n = G.normalize_cmp(b, cd)
            if n is None:
                continue
            op, x, y = n

            def is_len(o):
                oo = b.origin(o, stop_named=False)
                return oo[0] == "call" and oo[1].name() == "len"
            cx, cy = F.const_int(x), F.const_int(y)
            multi = False
            if is_len(x) and cy is not None:
                multi = (op == "Gt" and cy >= 1) or (op == "Ge" and cy >= 2) or (op == "Ne" and cy == 1 and False)
            if is_len(y) and cx is not None:
                multi = multi or (op == "Lt" and cx >= 1) or (op == "Le" and cx >= 2)
            single = False
            if is_len(x) and cy is not None:
                single = (op == "Le" and cy <= 1) or (op == "Lt" and cy <= 2) or (op == "Eq" and cy <= 1)
            if is_len(y) and cx is not None:
                single = single or (op == "Ge" and cx <= 1) or (op == "Gt" and cx <= 2) or (op == "Eq" and cx <= 1)
            if not single:
                # anything that is not provably `at most one` is treated as `may be several`
                cuts.add((bb, tgt, "maybe-multi"))
            else:
                cuts.add((bb, tgt, "single"))
    return cuts


def r8(R):
    prog = R.prog
    sites = _dedup_sites(prog)
    R.floor("C01-R8", "seen-set insertions in the executor and the finalizers", len(sites), 4)
    for b, c in sorted(sites, key=lambda x: (x[0].key, x[1].ln or 0)):
        R.saw(b)
        if b.is_closure:
            # filter / retain predicate: the closure's verdict is the insert's result on every path
            defs0 = b.defs().get(0, [])
            direct = len(defs0) == 1 and defs0[0][0] == "call" and defs0[0][2] is c
            if not direct:
                direct = all((d[0] == "call" and d[2] is c) or (d[0] == "assign" and d[3]["rv"] == "use" and b.alias_root(d[3]["op"]) == c.dest["l"])
                             for d in defs0) and bool(defs0)
            R.ob("C01-R8", "verdict:%s" % b.short, "the predicate of %s keeps an item iff its key was newly inserted (no path decides without the seen-set)"
                 % b.short, direct, where=b.where(c.ln),
                 detail=None if direct else "some path returns a verdict that is not the result of seen.insert(key): duplicates survive (or rows vanish) on it")
            # key completeness: key built from the whole item
            ko = b.origin(c.args[1], stop_named=False)
            names, roots = P.flat(P.tree(b, c.args[1], stop_named=False))
            trunc = [n for n in names if n in ("take", "skip", "step_by", "filter", "take_while", "skip_while", "nth", "first", "last", "find", "keys", "values")]
            from_item = any(r["k"] == "root" and r["local"] == 2 for r in roots) or (ko[0] == "place" and _root_is_param(b, ko[1]["l"], 2))
            by_columns = False
            if not from_item:
                # shape B: the key looks every projected column up in the row: map(|column| row.get(column))
                for n2 in P_calls(P.tree(b, c.args[1], stop_named=False)):
                    if n2.name() == "map" and len(n2.args) == 2:
                        o2 = b.origin(n2.args[1], stop_named=False)
                        rv2 = o2[1] if o2[0] == "rv" else None
                        if rv2 is None and o2[0] == "place":
                            d2 = b.single_def(o2[1]["l"])
                            rv2 = d2[3] if d2 and d2[0] == "assign" else None
                        if rv2 is not None and rv2["rv"] == "aggregate" and rv2.get("ak") == "closure":
                            caps_row = any(_root_is_param(b, (F.op_place(o) or {"l": -1})["l"], 2) for o in rv2["ops"])
                            cl2 = prog.bodies.get(rv2.get("closure"))
                            looks_up = cl2 is not None and any(ic.name() in ("get", "get_key_value") for ic in cl2.calls())
                            if caps_row and looks_up:
                                by_columns = True
                from_item = by_columns
            R.ob("C01-R8", "key:%s" % b.short, "the seen-key of %s is computed from the whole item (pipeline %s)" % (b.short, names), from_item and not trunc,
                 where=b.where(c.ln), detail=None if (from_item and not trunc) else "a key that leaves out part of the row / item merges distinct solutions")
            # for row keys: the map closure pairs variable and value
            for n2 in P_calls(P.tree(b, c.args[1], stop_named=False)):
                if n2.name() == "map" and len(n2.args) == 2 and not by_columns:
                    from c19 import closure_family_calls
                    key, inner = closure_family_calls(prog, b, n2.args[1])
                    cl = prog.bodies.get(key) if key else None
                    if cl is not None:
                        comps = set()
                        for (bb, where, kind, pl) in cl.uses().get(2, []):
                            if pl is not None:
                                for e in pl["p"]:
                                    if e["k"] == "field" and not e.get("adt"):
                                        comps.add(e["i"])
                                        break
                        R.ob("C01-R8", "pair:%s" % b.short, "the DISTINCT key of %s contains variable and value of every binding (components read: %s)"
                             % (b.short, sorted(comps)), comps >= {0, 1}, where=cl.where())
            continue
        # loop form
        drv = P.loop_driver(b, c.bb)
        if drv is None:
            R.ob("C01-R8", "loop:%s" % b.short, "the seen-test of %s sits in the loop over the items it filters" % b.short, False, where=b.where(c.ln))
            continue
        h, blocks, t = drv
        effects = [x for x in b.calls() if x.bb in blocks and x is not c and (x.name() in ("match_quad", "push", "extend", "insert") or
                                                                              (x.key or "").startswith("kolibrie::"))
                   and not b.dominates(x.bb, c.bb)]
        effects = [x for x in effects if x.name() not in ("query_graph", "next", "into_iter", "bound_scan_keys")]
        R.ob("C01-R8", "effects:%s" % b.short, "%s emits through a call inside the filtered loop (found %s)" % (b.short, sorted({x.name() for x in effects})),
             len(effects) >= 1, where=b.where(c.ln))
        cuts = _len_guard_cut_edges(b) | _optional_set_cuts(prog, b)
        multi_edges = {(bb, tgt) for bb, tgt, kind in cuts if kind == "maybe-multi"}
        single_sw = {bb for bb, tgt, kind in cuts if kind == "single"}
        for x in effects:
            # is x reachable from the loop header within the loop without passing the insert block, while `several sources` may hold?
            seen, work = set(), [h]
            hit = False
            while work:
                k = work.pop()
                if k in seen or k not in blocks or k == c.bb:
                    continue
                seen.add(k)
                if k == x.bb:
                    hit = True
                    break
                for s2 in b.succ(k):
                    if k in single_sw and (k, s2) in multi_edges:
                        continue        # this edge is only taken when there are several sources; bypass edges are the other ones
                    work.append(s2)
            # a bypass edge out of a `len <= 1` switch is fine; every other bypass is a violation
            ok = not hit or _bypass_only_single(b, h, blocks, c.bb, x.bb, cuts)
            R.ob("C01-R8", "total:%s:%s" % (b.short, x.name()), "in %s every item reaches `%s` only after its key went through seen.insert" % (b.short, x.name()),
                 ok, where=b.where(x.ln), detail=None if ok else "a path skips the seen-test although several FROM graphs may hold the same triple: "
                 "the merged default graph then yields it once per graph")
        # the key covers subject, predicate and object of the item
        ko = b.origin(c.args[1], stop_named=False)
        flds = set()
        rv = ko[1] if ko[0] == "rv" else None
        if rv is None and ko[0] == "place":
            d = b.single_def(ko[1]["l"])
            rv = d[3] if d and d[0] == "assign" else None
        if rv is not None and rv["rv"] == "aggregate":
            for o in rv["ops"]:
                oo = b.origin(o, stop_named=False)
                if oo[0] == "place":
                    flds |= {e["n"] for e in oo[1]["p"] if e["k"] == "field"}
        R.ob("C01-R8", "key:%s" % b.short, "the seen-key of %s is the whole triple (fields %s)" % (b.short, sorted(flds)),
             {"subject", "predicate", "object"} <= flds, where=b.where(c.ln))


def _is_multi_bool(y, op):
    """the operand is the value of `<collection>.len() > 1` (or an equivalent spelling)"""
    o = y.origin(op, stop_named=False)
    if o[0] != "rv" or o[1]["rv"] != "binop":
        return False
    rv = o[1]

    def is_len(x):
        oo = y.origin(x, stop_named=False)
        return oo[0] == "call" and oo[1].name() == "len"
    ca, cb = F.const_int(rv["a"]), F.const_int(rv["b"])
    if is_len(rv["a"]) and cb is not None:
        # its negation must imply `at most one`: !(len > c) is len <= c
        return (rv["op"] == "Gt" and cb <= 1) or (rv["op"] == "Ge" and cb <= 2)
    if is_len(rv["b"]) and ca is not None:
        return (rv["op"] == "Lt" and ca <= 1) or (rv["op"] == "Le" and ca <= 2)
    return False


def _optional_set_cuts(prog, b):
    """an optional seen-set built as `(sources.len() > 1).then(HashSet::new)` (here or in every caller): its None edge is taken only with at most
    one source, so a bypass of the seen-test over that edge is harmless"""
    cuts = set()
    for bb, t in b.terms():
        if t["t"] != "switch":
            continue
        ecs = [(tgt, cd) for tgt, cd in G.edge_conditions(b, bb) if cd.get("kind") == "variant" and (cd.get("adt") or "").endswith("Option") and cd.get("pl")]
        if not ecs:
            continue
        pl = ecs[0][1]["pl"]
        if "HashSet" not in b.local_ty(pl["l"]):
            continue
        work, ok, seen = [(b, {"k": "copy", "pl": pl})], True, set()
        n = 0
        while work and ok:
            x, op = work.pop()
            cr = _creation_of(x, op)
            if cr is None:
                ok = False
            elif cr[0] == "created":
                th = [c for c in x.calls() if c.bb == cr[1]]
                ok = bool(th) and th[0].name() in ("then", "then_some") and bool(th[0].args) and _is_multi_bool(x, th[0].args[0])
                n += 1
            elif cr[0] == "param":
                callers = [(y, cc) for y in prog.bodies.values() if y.crate == "kolibrie" and "::tests::" not in y.key for cc in y.calls() if cc.key == x.key]
                if not callers:
                    ok = False
                for y, cc in callers:
                    if (y.key, cc.bb) in seen or cr[1] - 1 >= len(cc.args):
                        continue
                    seen.add((y.key, cc.bb))
                    work.append((y, cc.args[cr[1] - 1]))
            else:
                ok = False
        if ok and n:
            for tgt, cd in ecs:
                if cd.get("variant") == "None":
                    cuts.add((bb, tgt, "single"))
                elif cd.get("variant") == "Some":
                    cuts.add((bb, tgt, "maybe-multi"))
    return cuts


def _bypass_only_single(b, h, blocks, ins_bb, eff_bb, cuts):
    """every path header -> effect that avoids the insert takes an edge on which `at most one source` holds"""
    single_edges = {(bb, tgt) for bb, tgt, kind in cuts if kind == "single"}
    if not single_edges:
        return False
    # whole-function search (the guard may be evaluated before the loop): from entry to effect avoiding insert and avoiding single edges
    seen, work = set(), [0]
    while work:
        k = work.pop()
        if k in seen or k == ins_bb:
            continue
        seen.add(k)
        if k == eff_bb:
            return False
        for s2 in b.succ(k):
            if (k, s2) in single_edges:
                continue
            work.append(s2)
    return True


def _root_is_param(b, l, want, depth=0):
    if depth > 10:
        return False
    if l == want:
        return True
    d = b.single_def(l)
    if d and d[0] == "assign":
        for p2, kind in F.rv_places(d[3]):
            if _root_is_param(b, p2["l"], want, depth + 1):
                return True
    if d and d[0] == "call" and d[2].args:
        p2 = F.op_place(d[2].args[0])
        if p2 is not None:
            return _root_is_param(b, p2["l"], want, depth + 1)
    return False


def P_calls(node):
    out = []
    if node["k"] == "call":
        out.append(node["call"])
        for i in node["in"]:
            out.extend(P_calls(i))
    return out


def r9(R):
    prog = R.prog
    ex = R.body("C01-R9", "ExecutionEngine::execute_with_ids_and_input", crate="kolibrie")
    if ex is None:
        return
    found = {}
    for h, blocks in ex.loops():
        drv = P.driver_of(ex, h, blocks)
        if not drv or drv[2] is None:
            continue
        names, roots = P.flat(drv[2])
        for r in roots:
            if r["k"] != "root":
                continue
            o = ex.origin({"k": "copy", "pl": {"l": r["local"], "p": [], "t": ""}}, stop_named=False)
            fl = list(r["fields"])
            if o[0] == "place":
                fl += [e["n"] for e in o[1]["p"] if e["k"] == "field"]
            for want in ("branches", "values"):
                if want in fl and (want not in found or len(blocks) > len(found[want][1])):
                    found[want] = (h, blocks, names)
    for want, acc_names, what in (("branches", ("extend", "append", "push"), "UNION"), ("values", ("push", "extend"), "VALUES")):
        R.ob("C01-R9", "loop:" + want, "the %s arm iterates over `%s`" % (what, want), want in found, where=ex.where())
        if want not in found:
            continue
        h, blocks, names = found[want]
        whole = not [n for n in names if n not in ("iter", "into_iter", "deref")]
        R.ob("C01-R9", "whole:" + want, "the %s loop ranges over every element of `%s` (pipeline %s)" % (what, want, names), whole, where=ex.where())
        accs = [c for c in ex.calls() if c.bb in blocks and c.name() in acc_names and c.args and "Vec" in ex.local_ty(F.op_place(c.args[0])["l"])
                and "HashMap" in ex.local_ty(F.op_place(c.args[0])["l"])]
        # the outermost accumulation of the loop: not inside a nested loop of this loop
        inner_loops = [(h2, b2) for h2, b2 in ex.loops() if h2 != h and h2 in blocks]
        accs = [c for c in accs if not any(c.bb in b2 for h2, b2 in inner_loops)]
        R.ob("C01-R9", "accumulates:" + want, "each iteration of the %s loop appends to the result rows (found %d site)" % (what, len(accs)), len(accs) >= 1, where=ex.where())
        if not accs:
            continue
        entries = [s2 for c in ex.calls() if c.name() == "next" and c.bb in blocks and not any(c.bb in b2 for h2, b2 in inner_loops)
                   for s1 in ex.succ(c.bb) for s2 in ex.succ(s1) if s2 in blocks and ex.blocks[s1]["term"]["t"] == "switch"]
        skip = (h in ex.reach_from(entries, avoid={c.bb for c in accs})) if entries else True
        R.ob("C01-R9", "no-skip:" + want, "no iteration of the %s loop returns to the loop head without appending" % what, not skip, where=ex.where(accs[0].ln),
             detail=None if not skip else ("a UNION branch that is skipped loses its solutions" if want == "branches" else
                                           "a VALUES row that is skipped (e.g. an all-UNDEF row) loses the unit solution it stands for"))
        if want == "branches":
            # what is appended is the recursive execution of the branch on the incoming solutions
            rec = [c for c in ex.calls() if c.bb in blocks and c.key == ex.key]
            okr = len(rec) >= 1 and all(any(ex.alias_root(a) == 4 or _root_is_param(ex, (F.op_place(a) or {"l": -1})["l"], 4) for a in c.args) for c in rec)
            R.ob("C01-R9", "branch-on-incoming", "every branch is executed on (a copy of) the incoming solutions", okr, where=ex.where(accs[0].ln))
            dd = [c.name() for c in ex.calls() if c.bb in blocks and c.name() in ("dedup", "dedup_by", "dedup_by_key", "retain", "sort", "sort_unstable")]
            R.ob("C01-R9", "multiset", "the UNION arm does not de-duplicate or reorder rows (found %s)" % dd, not dd, where=ex.where(accs[0].ln))
        else:
            j = [c for c in ex.calls() if c.name() == "join_solution_sequences" and not (c.bb in blocks)]
            accroot = ex.alias_root(accs[0].args[0])
            okj = any(ex.alias_root(c.args[1]) == accroot and (ex.alias_root(c.args[0]) == 4 or _root_is_param(ex, (F.op_place(c.args[0]) or {"l": -1})["l"], 4)) for c in j if len(c.args) >= 2)
            R.ob("C01-R9", "values-joined", "the VALUES rows are joined with the incoming solutions", okj, where=ex.where(accs[0].ln))


def r10(R):
    prog = R.prog
    lw = R.body("C01-R10", "utils::build_logical_plan_from_group_in_scope", crate="kolibrie")
    if lw is None:
        return
    lo = P.loops_over(lw, ["patterns", "filters"])
    pl = sorted(lo.get("patterns", []), key=lambda x: len(x[1]))
    R.ob("C01-R10", "loops", "the lowering has a loop over a BGP's patterns, one over a group's members and one over the deferred filters "
         "(found %d + %d)" % (len(pl), len(lo.get("filters", []))), len(pl) == 2 and len(lo.get("filters", [])) == 1, where=lw.where())
    if len(pl) != 2 or len(lo.get("filters", [])) != 1:
        return
    (bh, bblocks, bnames), (gh, gblocks, gnames) = pl
    fh, fblocks, fnames = lo["filters"][0]

    def eff(blocks, names):
        return [c for c in lw.calls() if c.bb in blocks and c.name() in names]
    for tag, names in (("bgp", bnames), ("group", gnames), ("filters", fnames)):
        whole = not [n for n in names if n not in ("iter", "into_iter", "deref")]
        R.ob("C01-R10", "whole:" + tag, "the %s loop ranges over every element (pipeline %s)" % (tag, names), whole, where=lw.where())
    be = eff(bblocks, ("append_join",))
    R.ob("C01-R10", "bgp-no-skip", "every triple pattern of a BGP is appended to the plan", bool(be) and not P.skips_effect(lw, bh, bblocks, {c.bb for c in be}),
         where=lw.where(be[0].ln if be else None), detail="a triple pattern that is skipped no longer constrains the solutions")
    ge = eff(gblocks, ("append_join", "bind", "push"))
    kinds = {c.name() for c in ge}
    R.ob("C01-R10", "group-arms", "a group member is deferred (filter), bound (BIND) or joined (found %s)" % sorted(kinds), kinds >= {"append_join", "bind", "push"},
         where=lw.where())
    R.ob("C01-R10", "group-no-skip", "every member of a group is handled", bool(ge) and not P.skips_effect(lw, gh, gblocks, {c.bb for c in ge}),
         where=lw.where(ge[0].ln if ge else None), detail="a group member that is skipped (a FILTER, a BIND, a nested pattern) silently disappears from the query")
    # what is pushed in the group loop is the vector the filters loop consumes
    pushes = [c for c in ge if c.name() == "push"]
    fdrv = P.driver_of(lw, fh, fblocks)
    froot = [r for r in P.flat(fdrv[2])[1] if r["k"] == "root"] if fdrv and fdrv[2] else []
    same = bool(pushes) and bool(froot) and all(lw.alias_root(c.args[0]) == lw.alias_root(froot[0]["local"]) for c in pushes)
    R.ob("C01-R10", "deferred-consumed", "the filters deferred while lowering a group are exactly those applied at its end", same, where=lw.where())
    fe = eff(fblocks, ("selection",))
    R.ob("C01-R10", "filters-no-skip", "every deferred FILTER becomes a selection", bool(fe) and not P.skips_effect(lw, fh, fblocks, {c.bb for c in fe}),
         where=lw.where(fe[0].ln if fe else None))
    # order: the filters loop runs after the members loop has finished (group scope), and no selection is built inside the members loop
    after = lw.dominates(gh, fh) and fh not in gblocks and gh not in lw.reach_from([fh])
    early = [c for c in lw.calls() if c.bb in gblocks and c.name() == "selection"]
    R.ob("C01-R10", "filters-at-group-end", "selections for a group's own FILTERs are built only after all its other members were lowered", after and not early,
         where=lw.where(early[0].ln if early else None),
         detail=None if (after and not early) else "a FILTER applied where it stands cannot see variables bound by later triples or BINDs of the same group")
    # the selection wraps the plan built so far and the result replaces it
    # UNION: every branch lowered
    un = [c for c in lw.calls() if c.name() == "union"]
    oku = False
    for c in lw.calls():
        if c.name() != "map" or len(c.args) != 2:
            continue
        from c19 import closure_family_calls
        key, inner = closure_family_calls(prog, lw, c.args[1])
        if not key or not any(ic.key == lw.key for x, ic in inner):
            continue            # not the branch-lowering map
        names, roots = P.flat(P.tree(lw, c.args[0], stop_named=False))
        if not [n for n in names if n not in ("iter", "into_iter", "deref")]:
            # nothing between the map and the union but collect / `?`
            cons = [x.name() for x in lw.calls() if x.args and F.op_place(x.args[0]) is not None and lw.alias_root(x.args[0]) == c.dest["l"]]
            if all(n in ("collect", "branch") for n in cons):
                oku = True
    if not oku:
        # the loop form: `for branch in branches { lowered.push(lower(branch)?) }` over the whole vector, no iteration skipped, and the
        # vector the loop fills is what `union` receives
        for h, blocks, names in P.loops_over(lw, ["branches"]).get("branches", []):
            if [n for n in names if n not in ("iter", "into_iter", "deref")]:
                continue
            rec = [c for c in lw.calls() if c.bb in blocks and c.key == lw.key]
            pushes = [c for c in lw.calls() if c.bb in blocks and c.name() == "push"]
            if not rec or not pushes or P.skips_effect(lw, h, blocks, {c.bb for c in pushes}):
                continue
            fed = any(F.op_place(a) is not None and lw.alias_root(a) == lw.alias_root(pushes[0].args[0]) for c in un for a in c.args)
            if fed:
                oku = True
    R.ob("C01-R10", "union-branches", "UNION lowers every branch (a map or a loop over all branches, no truncation, none skipped)", oku,
         where=lw.where(un[0].ln if un else None))


_R11_EXCEPTIONS = {("execute_with_ids_and_input", "InMemoryBuffer", "origin"): "diagnostic label of a buffer, not part of its content"}


def r11(R):
    prog = R.prog
    walkers = [("utils::build_logical_plan_from_group_in_scope", GGP), ("Streamertail::find_best_plan_recursive", LOP),
               ("ExecutionEngine::execute_with_ids_and_input", POP)]
    nfields = 0
    for suf, adtk in walkers:
        b = R.body("C01-R11", suf, crate="kolibrie")
        a = prog.adt(adtk)
        a = a[0] if isinstance(a, list) and a else a
        if b is None or not a:
            R.ob("C01-R11", "adt:" + adtk, "the enum %s is known" % adtk, bool(a))
            continue
        reads = {}

        def note(pl):
            v = None
            for e in pl["p"]:
                if e["k"] == "downcast":
                    v = e.get("n")
                if e["k"] == "field" and e.get("adt") == adtk and v:
                    reads.setdefault(v, set()).add(e["n"])
        for x in prog.family(b.key):
            for bb, i, pl, rv, st in x.assigns():
                for p2, k in F.rv_places(rv):
                    note(p2)
                note(pl)
            for bb, t in x.terms():
                if t["t"] == "call":
                    for a_ in t["args"]:
                        p2 = F.op_place(a_)
                        if p2:
                            note(p2)
        for v in a["variants"]:
            for f in v["fields"]:
                nfields += 1
                key = (b.name, v["name"], f["name"])
                ok = f["name"] in reads.get(v["name"], set())
                if not ok and key in _R11_EXCEPTIONS:
                    R.advisory("C01-R11", "audited exception %s: %s" % (key, _R11_EXCEPTIONS[key]))
                    continue
                R.ob("C01-R11", "reads:%s:%s:%s" % key, "%s reads %s::%s" % key, ok, where=b.where(),
                     detail=None if ok else "the walker never looks at this component: queries that differ only in it are treated alike")
    R.floor("C01-R11", "variant fields of the walked enums", nfields, 60)
    # the modifier records: every field is consulted by the code that finishes a (sub)query
    from lib import cover
    for suf, adtname in (("ExecutionEngine::finalize_subquery", "SubquerySpec"), ("execute_query::execute_select", "SelectQuery")):
        b = R.body("C01-R11", suf, crate="kolibrie")
        a = prog.find_adt(adtname)
        a = a[0] if isinstance(a, list) and a else a
        if b is None or not a:
            continue
        got = cover.consulted_fields(prog, b, a["key"])
        for f in a["variants"][0]["fields"]:
            ok = f["name"] in got
            R.ob("C01-R11", "consults:%s:%s" % (b.name, f["name"]), "%s consults %s.%s" % (b.name, adtname, f["name"]), ok, where=b.where(),
                 detail=None if ok else "a modifier that is parsed and carried but never consulted has no effect on the answer")


ROW_TY = "std::collections::hash::map::HashMap<alloc::string::String, u32"


def _is_row(b, op):
    pl = F.op_place(op)
    if pl is None:
        return False
    return b.local_ty(pl["l"]).replace("&mut ", "").replace("&", "").startswith(ROW_TY)


def _none_guard_of_lookup(b, bb, row_root):
    """conditions at bb that say `row.get(..)` returned None (for the given row); returns the get-calls"""
    out = []
    for cd in G.conditions(b, bb):
        if cd.get("kind") != "variant" or cd.get("variant") != "None":
            continue
        o = b.origin({"k": "copy", "pl": {"l": cd["pl"]["l"], "p": [], "t": ""}}, stop_named=False)
        c = o[1] if o[0] == "call" else None
        if c is None and o[0] == "place":
            d = [x for x in b.defs().get(o[1]["l"], []) if x[0] == "call"]
            c = d[0][2] if len(d) == 1 else None
        hops = 0
        while c is not None and c.name() in ("copied", "cloned", "or_else", "or", "map") and c.args and hops < 4:
            o2 = b.origin(c.args[0], stop_named=False)
            c = o2[1] if o2[0] == "call" else None
            hops += 1
        if c is not None and c.name() in ("get", "get_mut") and c.args and _is_row(b, c.args[0]):
            r = b.origin(c.args[0], stop_named=True)
            if row_root is None or (r[0] == "place" and r[1]["l"] == row_root):
                out.append(c)
    return out


def r12(R):
    prog = R.prog
    n = 0
    for nm in ("execute_graph_with_ids", "scan_one_graph", "match_term_with_store"):
        b = R.body("C01-R12", "ExecutionEngine::" + nm, crate="kolibrie")
        if b is None:
            continue
        R.saw(b)
        for c in b.calls():
            if c.name() != "insert" or len(c.args) != 3 or not _is_row(b, c.args[0]):
                continue
            n += 1
            r = b.origin(c.args[0], stop_named=True)
            root = r[1]["l"] if r[0] == "place" else None
            # a row cloned from another row: the lookup may be on the clone or on its source
            gets = _none_guard_of_lookup(b, c.bb, root)
            if not gets and root is not None:
                d = b.single_def(root)
                if d and d[0] == "call" and d[2].name() == "clone" and d[2].args:
                    src = b.origin(d[2].args[0], stop_named=True)
                    if src[0] == "place":
                        gets = _none_guard_of_lookup(b, c.bb, src[1]["l"])
            ok = bool(gets)
            R.ob("C01-R12", "bind-if-absent:%s:%d" % (nm, n), "%s binds a variable only after finding it absent from the same solution" % nm, ok,
                 where=b.where(c.ln), detail=None if ok else "an unconditional insert overwrites the value the variable already has: a pattern that "
                 "repeats a variable, or a GRAPH ?g under an already bound ?g, matches rows it must reject")
            # the `present` side compares
            for g in gets[:1]:
                cmp_ok = False
                some_t = None
                for bb2, t in b.terms():
                    if t["t"] == "switch":
                        for tgt, cd in G.edge_conditions(b, bb2):
                            if cd.get("kind") == "variant" and cd.get("variant") == "Some" and cd["pl"]["l"] in _aliases_of_call(b, g):
                                some_t = tgt
                if some_t is not None:
                    region = b.reach_from([some_t], avoid={c.bb})
                    for bb3, i, pl, rv, st in b.assigns():
                        if bb3 in region and rv["rv"] == "binop" and rv["op"] in ("Eq", "Ne"):
                            cmp_ok = True
                    for x in b.calls():
                        if x.bb in region and x.name() in ("eq", "ne"):
                            cmp_ok = True
                R.ob("C01-R12", "compare-if-present:%s:%d" % (nm, n), "when the variable is already bound, %s compares the two values" % nm, cmp_ok, where=b.where(g.ln))
    mq = R.body("C01-R12", "ExecutionEngine::match_quad", crate="kolibrie")
    if mq is not None:
        R.saw(mq)
        # staging writes: assignments through an index projection into a local array of (&str, u32)
        stag = []
        for bb, i, pl, rv, st in mq.assigns():
            if pl["p"] and any(e["k"] in ("index", "constindex") for e in pl["p"]) and "(&str, u32)" in mq.local_ty(pl["l"]):
                stag.append((bb, st.get("ln")))
        R.ob("C01-R12", "staging", "match_quad stages fresh bindings in a local buffer (found %d write)" % len(stag), len(stag) >= 1, where=mq.where())
        for bb, ln in stag:
            g = _none_guard_of_lookup(mq, bb, None)
            on_seed = [c for c in g if mq.alias_root(c.args[0]) == 6 or _root_is_param(mq, (F.op_place(c.args[0]) or {"l": -1})["l"], 6)]
            R.ob("C01-R12", "stage-if-absent", "a fresh binding is staged only when the variable is bound neither in the incoming solution nor earlier in "
                 "the pattern (None of seed.get(..).or_else(staged lookup))", bool(on_seed), where=mq.where(ln))
            # the lookup also consults what was staged for earlier positions of the same pattern
            staged_local = None
            for bb2, i2, pl2, rv2, st2 in mq.assigns():
                if pl2["p"] and any(e["k"] in ("index", "constindex") for e in pl2["p"]) and "(&str, u32)" in mq.local_ty(pl2["l"]):
                    staged_local = pl2["l"]
            consults = False
            for x in mq.calls():
                if x.name() in ("or_else", "or", "map_or", "map_or_else", "unwrap_or_else") and len(x.args) >= 2:
                    o = mq.origin(x.args[-1], stop_named=False)
                    rv3 = o[1] if o[0] == "rv" else None
                    if rv3 is None and o[0] == "place":
                        d3 = mq.single_def(o[1]["l"])
                        rv3 = d3[3] if d3 and d3[0] == "assign" else None
                    if rv3 is not None and rv3["rv"] == "aggregate" and rv3.get("ak") == "closure":
                        for op in rv3["ops"]:
                            oo = mq.origin(op, stop_named=True)
                            if oo[0] == "place" and oo[1]["l"] == staged_local:
                                consults = True
            # or a direct search of the staged buffer in the same body
            for x in mq.calls():
                if x.name() in ("find", "position", "any") and x.args:
                    names, roots = P.flat(P.tree(mq, x.args[0], stop_named=True))
                    if any(r["k"] == "root" and r["local"] == staged_local for r in roots):
                        consults = True
            R.ob("C01-R12", "stage-sees-earlier-positions", "the lookup that precedes staging also searches the bindings staged for earlier positions of the "
                 "same pattern", consults, where=mq.where(ln),
                 detail=None if consults else "`?x p ?x` stages ?x twice and the second value overwrites the first: the pattern matches triples whose "
                 "subject and object differ")
        # mismatch rejects: a Ne comparison whose true edge returns without pushing
        rej = False
        pushes = {c.bb for c in mq.calls() if c.name() == "push"}
        for bb, i, pl, rv, st in mq.assigns():
            if rv["rv"] == "binop" and rv["op"] in ("Ne", "Eq") and not pl["p"]:
                for bb2, t in mq.terms():
                    if t["t"] == "switch" and mq.reads(t["discr"], pl["l"]):
                        for tgt in mq.succ(bb2):
                            reach = mq.reach_from([tgt])
                            if not (reach & pushes):
                                rej = True
        R.ob("C01-R12", "mismatch-rejects", "match_quad compares an already bound variable (and constants) with the quad's value and emits nothing on mismatch",
             rej, where=mq.where())
        n += len(stag)
    R.floor("C01-R12", "binding sites in the scan layer", n, 4)


def _aliases_of_call(b, c):
    out = {c.dest["l"]}
    for _ in range(4):
        for x in b.calls():
            if x.args and F.op_place(x.args[0]) is not None and F.op_place(x.args[0])["l"] in out and x.name() in ("copied", "cloned", "or_else", "or", "map") and not x.dest["p"]:
                out.add(x.dest["l"])
        for bb, i, pl, rv, st in b.assigns():
            if not pl["p"] and rv["rv"] == "use" and F.op_place(rv["op"]) is not None and F.op_place(rv["op"])["l"] in out and not F.op_place(rv["op"])["p"]:
                out.add(pl["l"])
    return out


def r13(R):
    prog = R.prog
    b = R.body("C01-R13", "ExecutionEngine::execute_graph_with_ids", crate="kolibrie")
    if b is None:
        return
    R.saw(b)
    lo = P.loops_over(b, ["visible_graphs", "incoming"])
    vg = sorted(lo.get("visible_graphs", []), key=lambda x: len(x[1]))
    R.ob("C01-R13", "loop", "the Variable arm iterates over the visible named graphs", len(vg) >= 1, where=b.where())
    if not vg:
        return
    h, blocks, names = vg[0]
    whole = not [n for n in names if n not in ("iter", "into_iter", "deref")]
    R.ob("C01-R13", "whole", "the loop ranges over every visible graph (pipeline %s)" % names, whole, where=b.where())
    # where the list comes from: the dataset's named graphs, without truncation (sorting is fine)
    src_ok = False
    for c in b.calls():
        if c.name() == "collect" and b.local_name(c.dest["l"]) == "visible_graphs":
            n2, r2 = P.flat(P.tree(b, c.args[0], stop_named=False))
            if any(r["k"] == "root" and "named_graphs" in r["fields"] for r in r2) and not [x for x in n2 if x in ("take", "skip", "filter", "step_by", "take_while", "skip_while")]:
                src_ok = True
    R.ob("C01-R13", "source", "the visible graphs are all named graphs of the query dataset", src_ok, where=b.where())
    rec = [c for c in b.calls() if c.bb in blocks and c.key and c.key.endswith("execute_with_ids_and_input")]
    R.ob("C01-R13", "executes", "each visited graph runs the inner pattern (found %d call)" % len(rec), len(rec) >= 1, where=b.where())
    if rec:
        skips = P.skip_edges(b, h, blocks, {c.bb for c in rec})
        bad = []
        for bb, tgt, cd in skips:
            if cd.get("kind") == "call" and cd["call"].name() in ("graph_exists", "is_named_visible") and cd.get("truth") is False:
                continue
            if cd.get("kind") == "variant" and (cd.get("adt") or "").endswith("GraphId"):
                continue
            if cd.get("kind") == "variant" and cd.get("variant") in ("None",) and "Option" in (cd.get("adt") or ""):
                continue        # iterator exhausted
            bad.append("%s%s" % (cd.get("kind"), ":" + cd["call"].name() if cd.get("kind") == "call" else ""))
        R.ob("C01-R13", "skips", "a graph is skipped only because it does not exist / is not a named graph (other skip conditions: %s)" % bad, not bad,
             where=b.where(rec[0].ln), detail=None if not bad else "a visible named graph that is skipped for another reason loses its solutions")
        # ?g is bound to the visited graph in the row handed down
        ins = [c for c in b.calls() if c.bb in blocks and c.name() == "insert" and _is_row(b, c.args[0])]
        R.ob("C01-R13", "binds-g", "the row handed to the inner pattern binds ?g to the visited graph", len(ins) >= 1 and all(b.dominates(i.bb, r.bb) for i in ins for r in rec),
             where=b.where(rec[0].ln))


_COLLAPSE = ("unwrap_or", "unwrap_or_default", "unwrap_or_else", "is_some_and", "is_ok_and", "eq", "ne", "is_some", "is_ok", "is_none", "is_err")


def r17(R):
    prog = R.prog
    CE = "kolibrie::streamertail_optimizer::types::ConditionExpression"
    evs = []
    for k, b in sorted(prog.bodies.items()):
        if b.crate != "kolibrie" or not b.file.endswith("streamertail_optimizer/types.rs") or b.is_closure or "::tests::" in k:
            continue
        if not _dispatch_switches(b, CE):
            continue
        fam = prog.family(k)
        if not any(c.key == k for x in fam for c in x.calls()):
            continue
        # an evaluator decides something about a row: it returns bool / Option<bool> / Result<bool,..>, not a rebuilt expression
        t0 = b.local_ty(0)
        if "bool" not in t0:
            continue
        evs.append(b)
    R.floor("C01-R17", "recursive filter evaluators (dispatch on ConditionExpression, boolean result)", len(evs), 2)
    for b in evs:
        R.saw(b)
        t0 = b.local_ty(0)
        R.ob("C01-R17", "three-valued:" + b.name, "%s can return `error` besides true and false (returns %s)" % (b.name, t0.replace("core::option::", "")),
             t0 != "bool", where=b.where(),
             detail=None if t0 != "bool" else "a two-valued evaluator turns an error into false, and `!` turns that false into true: "
             "FILTER(!(?unbound = 1)) keeps every solution")
        # no negation of a collapsed sub-result in the evaluator proper
        rec_dests = {c.dest["l"] for c in b.calls() if c.key == b.key and c.dest is not None}
        bad = []
        for bb, i, pl, rv, st in b.assigns():
            if rv["rv"] != "unop" or rv.get("op") != "Not":
                continue
            o = F.op_place(rv.get("a") or rv.get("op1") or rv.get("operand") or {})
            if o is None:
                continue
            # walk back through collapsing calls to a recursive result
            cur, seen, via = [o["l"]], set(), None
            while cur:
                x = cur.pop()
                if x in seen:
                    continue
                seen.add(x)
                if x in rec_dests:
                    if t0 == "bool" or via:
                        bad.append((st.get("ln") if isinstance(st, dict) else None, via or "plain bool"))
                    break
                for d in b.defs().get(x, []):
                    if d[0] == "call":
                        if d[2].name() in _COLLAPSE:
                            via = d[2].name()
                        cur += [F.op_place(a)["l"] for a in d[2].args if F.op_place(a)]
                    elif d[0] in ("assign", "partial"):
                        if any(e["k"] == "downcast" for q, k in F.rv_places(d[3]) for e in q["p"]):
                            continue        # matched on Some(..): the error case went elsewhere
                        cur += [q["l"] for q, k in F.rv_places(d[3])]
        R.ob("C01-R17", "not-of-error:" + b.name, "%s never negates a sub-result that was collapsed to a bool" % b.name, not bad, where=b.where(bad[0][0] if bad else None),
             detail=None if not bad else "`!` is applied to a value obtained through %s: an error below becomes true" % ", ".join(sorted({v for _, v in bad})))
    # (c) the three-valued connectives consult the right operand unless the left one decides: a helper (Option<bool>, FnOnce) -> Option<bool>
    # may return without calling its right operand only on a path that positively tested the left operand to be `Some(..)`
    nconn = 0
    for k, b in sorted(prog.bodies.items()):
        if b.crate != "kolibrie" or not b.file.endswith("streamertail_optimizer/types.rs") or b.is_closure or "::tests::" in k:
            continue
        at = b.arg_tys()
        if len(at) != 2 or "Option<bool>" not in at[0] or "Option<bool>" not in b.local_ty(0):
            continue
        rcalls = [c for c in b.calls() if c.name() in ("call_once", "call_mut", "call") and c.args and F.op_place(c.args[0]) is not None and b.alias_root(c.args[0]) == 2]
        nconn += 1
        if not rcalls:
            R.ob("C01-R17", "connective-consults-right:" + b.name, "%s consults its right operand" % b.name, False, where=b.where())
            continue
        rbbs = {c.bb for c in rcalls}
        # blocks from which a return is reachable without passing a call of the right operand
        skipping = []
        for e in b.exits():
            if b.blocks[e]["term"]["t"] != "return":
                continue
            # walk back from the return avoiding the right-operand calls; if the entry is reachable backwards, some path skips the call
            seen, work = set(), [e]
            while work:
                x = work.pop()
                if x in seen or x in rbbs:
                    continue
                seen.add(x)
                work.extend(b.pred(x))
            if 0 in seen:
                skipping.append((e, seen))
        bad = []
        for e, region in skipping:
            # every entry->return path inside `region` must cross an edge that shows left = Some(..): the Some edge of a discriminant switch on
            # the left operand, or the true edge of `left == Some(c)`
            ok_edges = set()
            for bb in region:
                t = b.blocks[bb]["term"]
                if t["t"] != "switch":
                    continue
                for tgt, cd in G.edge_conditions(b, bb):
                    if cd.get("kind") == "variant" and cd.get("variant") == "Some" and cd.get("pl") is not None and b.alias_root(cd["pl"]["l"]) == 1:
                        ok_edges.add((bb, tgt))
                    if cd.get("kind") == "call" and cd["call"].name() in ("eq",) and cd.get("truth") is True and \
                            any(F.op_place(a) is not None and b.alias_root(a) == 1 for a in cd["call"].args):
                        ok_edges.add((bb, tgt))
            # is the return reachable from entry inside region without using an ok edge?
            seen, work = set(), [0]
            reached = False
            while work:
                x = work.pop()
                if x in seen or x not in region:
                    continue
                seen.add(x)
                if x == e:
                    reached = True
                    break
                for s2 in b.succ(x):
                    if (x, s2) not in ok_edges:
                        work.append(s2)
            if reached:
                bad.append(e)
        R.ob("C01-R17", "connective-consults-right:" + b.name, "%s returns without consulting its right operand only when the left operand decides" % b.name,
             not bad, where=b.where(), detail=None if not bad else "on a path where the left operand is an error (None) the right operand is never evaluated: "
             "`error && false` must be false and `error || true` must be true, so `!(?unbound > 1 && ?x = 2)` loses rows")
    R.floor("C01-R17", "three-valued connective helpers", nconn, 2)
    # (b) comparators: no default number for an operand that is not a number
    cmps = set()
    for b in evs:
        for k in prog.reachable([b.key]):
            x = prog.bodies.get(k)
            if x is not None and x.crate == "kolibrie" and x.file.endswith("streamertail_optimizer/types.rs") and "::tests::" not in k:
                cmps.add(prog.bodies[x.root].key if x.is_closure and x.root in prog.bodies else k)
    nparse = 0
    for k in sorted(cmps):
        x = prog.bodies[k]
        for y in prog.family(k):
            for c in y.calls():
                if c.name() != "parse" or c.dest is None:
                    continue
                nparse += 1
                # how the parse result is consumed
                for c2 in y.calls():
                    if c2.name() in ("unwrap_or", "unwrap_or_default") and c2.args and F.op_place(c2.args[0]) is not None:
                        src = y.origin(c2.args[0], stop_named=False)
                        from_parse = src is not None and getattr(src, "bb", None) == c.bb and getattr(src, "name", lambda: "")() == "parse"
                        if not from_parse:
                            # follow one level of temporaries
                            p0 = F.op_place(c2.args[0])
                            ds = y.defs().get(p0["l"], [])
                            from_parse = any(d[0] == "call" and d[2].bb == c.bb for d in ds)
                        if from_parse:
                            R.ob("C01-R17", "default-number:%s" % x.name, "%s compares only operands that are numbers as numbers" % x.name, False,
                                 where=y.where(c2.ln), detail="an operand that does not parse as a number is replaced by a default (%s) and compared: "
                                 "`?o < 3` keeps IRIs and arbitrary strings" % (F.op_const(c2.args[1]) or {}).get("d", "default") if len(c2.args) > 1 else "default")
    R.floor("C01-R17", "number parses in the filter evaluators and comparators", nparse, 2)
    R.ob("C01-R17", "comparators-scanned", "comparators reachable from the evaluators were scanned (%d functions, %d number parses)" % (len(cmps), nparse), True)


def r18(R):
    prog = R.prog
    ex = R.body("C01-R18", "ExecutionEngine::execute_with_ids_and_input", crate="kolibrie")
    if ex is None:
        return
    names = [ex.local_name(i) for i in range(1, ex.nargs + 1)]
    if "incoming" not in names:
        return
    sites = []
    for x in prog.family(ex.key):
        for c in x.calls():
            if c.name() in ("evaluate_with_ids", "evaluate") and "streamertail_optimizer::types" in (c.key or ""):
                sites.append((x, c))
    R.floor("C01-R18", "places where the executor evaluates a FILTER condition", len(sites), 1)
    # the rows: where do they come from
    for x, c in sites:
        row = c.args[1] if len(c.args) > 1 else None
        restricted = False
        fresh_input = False
        if x.is_closure:
            # the closure is the predicate of a filter over the result of executing the Filter's input
            parent = prog.bodies.get(x.parent) if getattr(x, "parent", None) else ex
            parent = parent or ex
        else:
            parent = x
        recs = [c2 for c2 in ex.calls() if c2.key == ex.key and len(c2.args) >= 4]
        # the recursive execution that feeds this filter: the one whose result reaches the adaptor holding the closure
        feeding = []
        for c2 in recs:
            d = P.derives(prog, ex, F.op_place(c2.args[3])["l"]) if F.op_place(c2.args[3]) else set()
            for c3 in ex.calls():
                if any(P._closure_calls(prog, ex, a)[0] == x.key for a in c3.args) and c3.args and F.op_place(c3.args[0]) is not None:
                    dd = P.derives(prog, ex, F.op_place(c3.args[0])["l"])
                    if ("call", "execute_with_ids_and_input") in dd and ("param", "incoming") in d:
                        feeding.append(c2)
        if x.is_closure and not feeding:
            fresh_input = True
        # a restriction: the row handed to the condition is not the closure's element itself but the result of a call that also takes a variable set
        if row is not None and F.op_place(row) is not None:
            dr = P.derives(prog, x, F.op_place(row)["l"])
            restricted = any(t[0] == "call" and t[1] not in ("deref", "as_ref", "borrow") for t in dr)
        ok = restricted or fresh_input
        R.ob("C01-R18", "filter-sees-outer-bindings", "the executor evaluates a FILTER condition only over the variables of the filter's own group", ok,
             where=x.where(c.ln), detail=None if ok else "the Filter arm executes its input on the incoming solutions and evaluates the condition on the merged "
             "rows: `?a <p> ?b . { FILTER(?a != <x>) }` filters on the outer ?a although ?a is unbound inside the nested group (the algebra drops every solution)")


def r19(R):
    prog = R.prog
    readers = [R.body("C01-R19", "execute_query::aggregate_rows", crate="kolibrie"),
               R.body("C01-R19", "ExecutionEngine::aggregate_subquery_rows", crate="kolibrie")]
    nsum = 0
    nagg = 0
    for rd in readers:
        if rd is None:
            continue
        for x in prog.family(rd.key):
            for c in x.calls():
                if c.name() in ("fold", "sum", "product") and c.dest is not None and x.local_ty(c.dest["l"]) in ("f64", "f32"):
                    nagg += 1
                if c.name() not in ("sum", "product") or c.dest is None or x.local_ty(c.dest["l"]) not in ("f64", "f32"):
                    continue
                nsum += 1
                d = c.dest["l"]
                direct = []
                for c2 in x.calls():
                    if c2.name() in ("to_string", "fmt", "new_display", "format") and c2.args and F.op_place(c2.args[0]) is not None:
                        if x.alias_root(c2.args[0]) == d:
                            direct.append(c2)
                guarded = False
                if direct:
                    for cd in G.conditions(x, c.bb):
                        if cd.get("kind") == "call" and cd["call"].name() in ("is_empty", "len"):
                            guarded = True
                R.ob("C01-R19", "sum-formatted:%s" % rd.name, "%s does not print a floating-point sum as it is" % rd.name, not direct or guarded,
                     where=x.where(c.ln), detail=None if (not direct or guarded) else "Iterator::sum::<f64>() of an empty iterator is -0.0: SUM over a group "
                     "without numeric values prints \"-0\"")
    R.floor("C01-R19", "floating-point accumulations in the two aggregators (sum / fold)", nagg, 4)


def r20(R):
    prog = R.prog
    b = R.body("C01-R20", "execute_query::build_dataset_view", crate="kolibrie")
    if b is None:
        return
    news = [c for c in b.calls() if c.name() == "new" and "DatasetView" in (c.pretty or c.key or "") and len(c.args) >= 2]
    R.ob("C01-R20", "constructs", "build_dataset_view builds the replacement dataset with DatasetView::new (found %d)" % len(news), len(news) >= 1, where=b.where())
    catalog = ("named_graphs", "graphs", "from_database", "all_quads", "graph_exists")
    for c in news:
        for idx, fld, what in ((0, "from", "default graphs"), (1, "from_named", "named graphs")):
            pl = F.op_place(c.args[idx])
            d = P.derives(prog, b, pl["l"]) if pl is not None else set()
            from_clause = any(t[0] == "field" and t[1].endswith("." + fld) for t in d)
            from_store = sorted(t[1] for t in d if t[0] == "call" and t[1] in catalog)
            other_clause = any(t[0] == "field" and t[1].endswith("." + ("from_named" if fld == "from" else "from")) for t in d)
            ok = from_clause and not from_store and not other_clause
            R.ob("C01-R20", "replaced:" + fld, "the %s of the replacement dataset come from `query.%s` only" % (what, fld), ok, where=b.where(c.ln),
                 detail=None if ok else ("they also derive from the stored catalog (%s): a query with FROM but no FROM NAMED must see no named graph at all" % from_store
                                         if from_store else "they do not derive from query.%s alone" % fld))
    fdb = [c for c in b.calls() if c.name() == "from_database"]
    for c in fdb:
        conds = G.conditions(b, c.bb)
        empties = [cd for cd in conds if cd.get("kind") == "call" and cd["call"].name() == "is_empty" and cd.get("truth") is True]
        R.ob("C01-R20", "stored-only-without-clauses", "the stored dataset is used only when both FROM and FROM NAMED are absent (emptiness tests on the path: %d)" % len(empties),
             len(empties) >= 2, where=b.where(c.ln))


def r16(R):
    prog = R.prog
    ex = R.body("C01-R16", "ExecutionEngine::execute_with_ids_and_input", crate="kolibrie")
    sc = R.body("C01-R16", "ExecutionEngine::execute_quad_scan_with_ids", crate="kolibrie")
    if ex is None or sc is None:
        return
    # (a) scope resets: recursive executions whose bindings argument is not derived from the incoming parameter
    names = [ex.local_name(i) for i in range(1, ex.nargs + 1)]
    if "context" not in names or "incoming" not in names:
        R.ob("C01-R16", "params", "the executor has `context` and `incoming` parameters", False, where=ex.where())
        return
    ctx_l, inc_l = names.index("context") + 1, names.index("incoming") + 1
    resets = []
    for x in prog.family(ex.key):
        if x.key != ex.key:
            continue
        for c in x.calls():
            if c.key != ex.key or len(c.args) < 4:
                continue
            d = P.derives(prog, x, F.op_place(c.args[3])["l"]) if F.op_place(c.args[3]) else set()
            if ("param", "incoming") not in d:
                resets.append(c)
    R.floor("C01-R16", "executor arms that restart from fresh bindings", len(resets), 1)
    # a subquery is its own scope: in the Subquery arm *every* evaluation of the inner plan restarts from fresh bindings
    nsub = 0
    for c in ex.calls():
        if c.key != ex.key or len(c.args) < 4:
            continue
        in_sub = any(cd.get("kind") == "variant" and cd.get("variant") == "Subquery" and cd.get("truth") is True for cd in G.conditions(ex, c.bb))
        if not in_sub:
            continue
        nsub += 1
        d = P.derives(prog, ex, F.op_place(c.args[3])["l"]) if F.op_place(c.args[3]) else set()
        fresh = ("param", "incoming") not in d
        R.ob("C01-R16", "subquery-own-scope:%d" % nsub, "the Subquery arm evaluates the inner plan from the unit solution, not from the incoming rows", fresh, where=ex.where(c.ln),
             detail=None if fresh else "a variable the subquery does not project is local to it; started from the outer rows, an outer variable of the same name "
             "constrains the inner scans: `?s <name> ?o . { SELECT ?s WHERE { ?s <knows> ?o } }` loses its rows")
    R.floor("C01-R16", "evaluations of the inner plan in the Subquery arm", nsub, 1)
    for c in resets:
        same = F.op_place(c.args[2]) is not None and ex.alias_root(c.args[2]) == ctx_l
        R.ob("C01-R16", "reset-keeps-context", "the arm that restarts from fresh bindings passes its own execution context on", same, where=ex.where(c.ln),
             detail=None if same else "a different context drops the active graph (and the query dataset) for everything inside the subquery")
    # (b) the all-named-graphs loop of the scan is reached only after the active graph was consulted
    snames = [sc.local_name(i) for i in range(1, sc.nargs + 1)]
    if "context" not in snames:
        R.ob("C01-R16", "scan-params", "the scan has a `context` parameter", False, where=sc.where())
        return
    sctx = snames.index("context") + 1
    loops = []
    for h, blocks, nm in P.loops_over(sc, ["visible_graphs"]).get("visible_graphs", []):
        if any(c.bb in blocks and c.name() == "scan_one_graph" for c in sc.calls()):
            loops.append((h, blocks))
    if not loops:
        # any loop that scans one graph per turn and is not the loop over the incoming rows
        inc = {h for h, bl, nm in P.loops_over(sc, ["incoming"]).get("incoming", [])}
        for h, blocks in (sc.loops().items() if isinstance(sc.loops(), dict) else sc.loops()):
            if h not in inc and any(c.bb in blocks and c.name() == "scan_one_graph" for c in sc.calls()):
                loops.append((h, blocks))
    R.floor("C01-R16", "loops of the scan that range over named graphs", len(loops), 1)
    reads = set()
    for bb, i, pl, rv, st in sc.assigns():
        if rv["rv"] not in ("discriminant", "use", "ref"):
            continue
        for q, k in F.rv_places(rv):
            if q["l"] == sctx and [e.get("n") for e in q["p"] if e["k"] == "field"][:1] == ["active_graph"] and \
                    not any(e["k"] == "downcast" for e in q["p"]):
                reads.add(bb)
    for h, blocks in loops:
        ok = any(sc.dominates(rb, h) for rb in reads)
        R.ob("C01-R16", "scan-consults-active-graph", "the scan ranges over all named graphs only after testing the context's active graph", ok,
             where=sc.where(sc.blocks[h].get("ln")), detail=None if ok else "inside GRAPH ?g { { SELECT .. } } the subquery's scans start from a row "
             "without ?g and range over every named graph; with ?g projected away the join no longer ties the subquery to the current graph")


def r14(R):
    prog = R.prog
    shapes = {}
    for suf in ("execute_query::apply_order_by", "ExecutionEngine::apply_subquery_order"):
        b = R.body("C01-R14", suf, crate="kolibrie")
        if b is None:
            continue
        R.saw(b)
        sorts = [c for c in b.calls() if c.name() in ("sort_by", "sort_unstable_by", "sort_by_key", "sort_unstable_by_key", "sort_by_cached_key")]
        sorts = [c for c in sorts if c.name() in ("sort_by", "sort_unstable_by")]
        R.ob("C01-R14", "sorts:" + b.name, "%s sorts with a comparator (found %s)" % (b.name, [c.name() for c in sorts]), len(sorts) == 1, where=b.where())
        if not sorts:
            continue
        from c19 import closure_family_calls
        key, inner = closure_family_calls(prog, b, sorts[0].args[1])
        cl = prog.bodies.get(key) if key else None
        if cl is None:
            R.ob("C01-R14", "comparator:" + b.name, "%s has a comparator closure" % b.name, False, where=b.where())
            continue
        lo = P.loops_over(cl, ["conditions"])
        # the closure captures `conditions`; find the loop whose driver is rooted in a capture
        loops = []
        for h, blocks in cl.loops():
            drv = P.driver_of(cl, h, blocks)
            if drv and drv[2] is not None:
                names, roots = P.flat(drv[2])
                loops.append((h, blocks, names, roots))
        loops.sort(key=lambda x: -len(x[1]))
        R.ob("C01-R14", "keys-loop:" + b.name, "the comparator of %s loops over the sort keys" % b.name, len(loops) >= 1, where=cl.where())
        if not loops:
            continue
        h, blocks, names, roots = loops[0]
        whole = not [n for n in names if n not in ("iter", "into_iter", "deref")]
        R.ob("C01-R14", "all-keys:" + b.name, "every sort key is considered, in order (pipeline %s)" % names, whole, where=cl.where())
        # reverse() is controlled by the Desc variant and only by it
        revs = [c for c in cl.calls() if c.name() == "reverse"]
        okrev = len(revs) == 1 and any(cd.get("kind") == "variant" and cd.get("variant") == "Desc" for cd in G.conditions(cl, revs[0].bb))
        R.ob("C01-R14", "desc-reverses:" + b.name, "the comparison is reversed exactly under DESC", okrev, where=cl.where(revs[0].ln if revs else None))
        # numeric-or-lexical: two parse calls and both partial_cmp and cmp
        nm = [c.name() for c in cl.calls()]
        shape = (nm.count("parse") >= 2, "partial_cmp" in nm, "cmp" in nm)
        shapes[b.name] = shape
        R.ob("C01-R14", "numeric-or-lexical:" + b.name, "values are compared numerically when both parse as numbers, lexically otherwise", all(shape), where=cl.where())
        # every verdict: either `Equal` (only after the keys are exhausted) or the current key's comparison under `!= Equal`
        okret, okeq, nret, neq = True, True, 0, 0
        for bb, i, pl, rv, st in cl.assigns():
            if pl["l"] != 0 or pl["p"]:
                continue
            is_equal = rv["rv"] == "aggregate" and rv.get("variant") == "Equal"
            conds = G.conditions(cl, bb)
            if is_equal:
                neq += 1
                # reached through the `None` edge of the keys iterator, not from inside an iteration
                if not any(cd.get("kind") == "variant" and cd.get("variant") == "None" for cd in conds):
                    okeq = False
            else:
                nret += 1
                if not any(cd.get("kind") == "call" and cd["call"].name() in ("ne", "eq") for cd in conds):
                    okret = False
        R.ob("C01-R14", "first-difference:" + b.name, "the comparator returns a key's comparison only when it is not Equal", okret and nret >= 1, where=cl.where())
        R.ob("C01-R14", "equal-after-all:" + b.name, "rows compare Equal only after every key was compared", okeq and neq >= 1, where=cl.where())
    R.ob("C01-R14", "siblings", "both comparators have the same shape (%s)" % shapes, len(shapes) == 2 and len(set(shapes.values())) == 1)


def r15(R):
    prog = R.prog
    CUTS = {"truncate", "drain", "split_off", "pop", "remove", "swap_remove", "resize", "dedup", "dedup_by", "dedup_by_key", "clear", "take", "skip",
            "step_by", "split_at", "chunks", "first", "last", "nth", "take_while", "skip_while"}
    es = R.body("C01-R15", "execute_query::execute_select", crate="kolibrie")
    fs = R.body("C01-R15", "execute_query::finalize_select", crate="kolibrie")
    if es is None or fs is None:
        return
    # everything execute_select runs between the executor and the finalizer, in execute_query.rs
    scope = set()
    work = [es.key]
    while work:
        k = work.pop()
        if k in scope:
            continue
        scope.add(k)
        b = prog.bodies.get(k)
        if b is None:
            continue
        for x in prog.family(k):
            for c in x.calls():
                if c.key in prog.bodies and prog.bodies[c.key].file.endswith("execute_query.rs") and c.key != fs.key and \
                        prog.bodies[c.key].name not in ("build_dataset_view", "build_logical_plan_from_group", "materialize_neural_relations_for_patterns",
                                                        "collect_triple_patterns", "aggregate_rows", "apply_order_by"):
                    work.append(c.key)
    ROWS = ("alloc::vec::Vec<std::collections::hash::map::HashMap<alloc::string::String, u32", "alloc::vec::Vec<std::collections::hash::map::HashMap<alloc::string::String, alloc::string::String")
    n = 0
    for k in sorted(scope):
        b = prog.bodies.get(k)
        if b is None:
            continue
        for x in prog.family(k):
            R.saw(x)
            for c in x.calls():
                if c.name() in CUTS and c.args:
                    pl = F.op_place(c.args[0])
                    ty = x.local_ty(pl["l"]).replace("&mut ", "").replace("&", "") if pl is not None else ""
                    if ty.startswith(ROWS) or "Bindings" in ty:
                        n += 1
                        # an early cut is sound only when nothing later reorders, merges or removes rows: the guard must consult every
                        # modifier, including the projection (an aggregate without GROUP BY is an implicit group)
                        fields = set()
                        for cd in G.conditions(x, c.bb):
                            blk = x.blocks[cd["bb"]] if cd.get("bb") is not None else None
                            if blk is None or blk["term"]["t"] != "switch":
                                continue
                            dl = F.op_place(blk["term"]["discr"])
                            if dl is None:
                                continue
                            locs = {dl["l"]}
                            # a flag computed by a short-circuit chain: the earlier operands control where it is assigned
                            for d in x.defs().get(x.alias_root(dl["l"]) if x.alias_root(dl["l"]) is not None else dl["l"], []):
                                if d[0] in ("assign", "call"):
                                    for cd2 in G.conditions(x, d[1]):
                                        b2 = x.blocks[cd2["bb"]] if cd2.get("bb") is not None else None
                                        if b2 is not None and b2["term"]["t"] == "switch" and F.op_place(b2["term"]["discr"]) is not None:
                                            locs.add(F.op_place(b2["term"]["discr"])["l"])
                            for l0 in locs:
                                for t in P.derives(prog, x, l0):
                                    if t[0] == "field":
                                        fields.add(t[1].split(".")[-1])
                        need = {"order_conditions", "distinct", "group_vars", "variables"}
                        if need <= fields:
                            R.ob("C01-R15", "guarded-cut:%s:%s" % (x.short, c.name()), "the early cut in %s is guarded by every modifier of the query (%s)"
                                 % (x.short, sorted(fields)), True, where=x.where(c.ln))
                            continue
                        R.ob("C01-R15", "cut:%s:%s" % (x.short, c.name()), "%s does not cut the solution sequence before it is finalized (`%s` on the rows)" % (x.short, c.name()),
                             False, where=x.where(c.ln), detail="rows removed before aggregation / ordering / DISTINCT change the answer: e.g. `SELECT (AVG(?v) AS ?a) ... LIMIT 1` "
                             "must average over all solutions and then keep one row (the guard consults only %s; it must also rule out %s)"
                             % (sorted(fields), sorted(need - fields)))
    R.ob("C01-R15", "scope", "bodies between the executor and the finalizer scanned for cuts (%d bodies, %d cuts)" % (len(scope), n), len(scope) >= 2)
    # the rows finalize_select receives are the decoded executor result
    calls = [c for c in es.calls() if c.key == fs.key]
    okc = False
    for c in calls:
        terms = []
        P.coverage_terminals(prog, es, c.args[0], set(), terms)
        if terms and all(t[0] == "call" and len(t) > 3 and t[3].startswith("kolibrie::") for t in terms):
            okc = True
    R.ob("C01-R15", "whole-result", "finalize_select receives the complete (decoded) result of the executor", okc, where=es.where(calls[0].ln if calls else None))


_PASS_THROUGH = {"as_deref_mut", "as_mut", "as_deref", "as_ref", "unwrap", "expect", "deref_mut", "deref", "borrow_mut", "branch", "unwrap_unchecked",
                 "reborrow", "by_ref"}
_CREATORS = {"new", "default", "with_capacity", "with_hasher", "with_capacity_and_hasher", "then", "then_some", "then_with", "from_iter", "collect"}


def _creation_of(b, op, depth=0):
    """where the collection an operand refers to was created: ('created', bb) | ('param', index) | None"""
    pl = F.op_place(op)
    if pl is None or depth > 12:
        return None
    l = pl["l"]
    for _ in range(30):
        if 1 <= l <= b.nargs and not b.is_closure:
            return ("param", l)
        ds = [d for d in b.defs().get(l, []) if d[0] in ("assign", "call")]
        if len(ds) != 1:
            # multi-definition (`seen = HashSet::new()` again in a loop): every definition is a creation
            cr = [d for d in ds if d[0] == "call" and d[2].name() in _CREATORS]
            if cr and len(cr) == len(ds):
                return ("created-multi", [d[1] for d in cr])
            return None
        d = ds[0]
        if d[0] == "call":
            c = d[2]
            if c.name() in _CREATORS:
                return ("created", c.bb)
            if c.name() in _PASS_THROUGH and c.args and F.op_place(c.args[0]):
                l = F.op_place(c.args[0])["l"]
                continue
            return None
        rv = d[3]
        if rv["rv"] in ("use", "cast"):
            src = F.op_place(rv["op"])
        elif rv["rv"] in ("ref", "rawptr"):
            src = rv["pl"]
        else:
            return None
        if src is None:
            return None
        l = src["l"]
    return None


def _row_loops(b):
    """loops of b that iterate over solution rows (items are HashMap<String, u32>)"""
    out = []
    for h, body in b.loops():
        for c in b.calls():
            if c.bb in body and c.name() == "next" and c.args and F.op_place(c.args[0]):
                ty = b.local_ty(F.op_place(c.args[0])["l"])
                if "HashMap<alloc::string::String, u32>" in ty and ("IntoIter" in ty or "Iter<" in ty or "Drain" in ty):
                    out.append((h, body))
                    break
    return out


def seen_scope(R, rid):
    """the seen-set of a scan lives for one incoming row"""
    prog = R.prog
    R.rule(rid, "one seen-set per incoming row: the set that suppresses a triple held by several source graphs of the merged default graph is "
                "created for each incoming solution - inside the function that scans for one row, or inside the caller's loop over the "
                "incoming rows - never before that loop. A set that survives a row drops, for every later row, each triple an earlier row has "
                "already examined: a bind or star join (all left rows through one scan call) loses solutions that a hash join (one unit row) keeps, "
                "so the answer depends on the plan the optimizer picks")
    n = 0
    for b, c in sorted(_dedup_sites(prog), key=lambda x: (x[0].key, x[1].ln or 0)):
        if b.is_closure or not b.file.endswith("execution/engine.rs"):
            continue
        rty = b.local_ty((F.op_place(c.args[0]) or {"l": 0})["l"])
        if "(u32, u32, u32)" not in rty:
            continue
        n += 1
        R.saw(b)
        chain = [b.short]
        work = [(b, c.args[0], c.bb)]
        verdicts = []
        seen_sites = set()
        while work:
            x, op, at = work.pop()
            cr = _creation_of(x, op)
            rl = [(h, body) for h, body in _row_loops(x) if at in body]
            if cr is None:
                verdicts.append((x, at, False, "the set's origin in %s is not understood" % x.short))
            elif cr[0] in ("created", "created-multi"):
                bbs = [cr[1]] if cr[0] == "created" else cr[1]
                bad = [h for h, body in rl if not all(k in body for k in bbs)]
                verdicts.append((x, at, not bad, "created in %s %s" % (x.short, "inside the loop over the incoming rows" if rl and not bad else
                                                                       ("before the loop over the incoming rows" if bad else "(per call)"))))
            else:
                callers = [(y, cc) for y in prog.bodies.values() if y.crate == "kolibrie" and "::tests::" not in y.key for cc in y.calls() if cc.key == x.key]
                if not callers:
                    verdicts.append((x, at, False, "%s takes the set as a parameter and has no caller" % x.short))
                for y, cc in callers:
                    if (y.key, cc.bb) in seen_sites or cr[1] - 1 >= len(cc.args):
                        continue
                    seen_sites.add((y.key, cc.bb))
                    chain.append(y.short)
                    work.append((y, cc.args[cr[1] - 1], cc.bb))
        ok = bool(verdicts) and all(v[2] for v in verdicts)
        R.ob(rid, "per-row:%s" % b.short, "the seen-set of %s is created once per incoming row (%s)" % (b.short, "; ".join(v[3] for v in verdicts)), ok,
             where=b.where(c.ln), detail=None if ok else "with `FROM <g1> FROM <g2>` and a many-to-one join, the second left row no longer finds the triple the "
             "first one matched")
    R.floor(rid, "seen-sets of the scan layer", n, 1)


def r21(R):
    seen_scope(R, "C01-R21")


def r22(R):
    """a fold starts from the identity of its operator"""
    prog = R.prog
    R.rule("C01-R22", "a fold starts from the identity of its operator: where the aggregation code reduces numbers with `fold(init, f)` and `f` is a named "
                      "operator, `init` is that operator's identity - `f64::max`: NEG_INFINITY or f64::MIN; `f64::min`: INFINITY or f64::MAX; addition: 0; "
                      "multiplication: 1. `f64::MIN_POSITIVE` is the smallest *positive* number: `MAX` over {-4, -7, -2.5} then answers 2.2e-308")
    IDENT = {"max": ("NEG_INFINITY", "::MIN", "-inf"), "min": ("::INFINITY", "::MAX", "inff64", "inf"),
             "add": ("0f64", "0_f64", "0.0", "-0f64"), "mul": ("1f64", "1_f64", "1.0"), "saturating_add": ("0_",), "wrapping_add": ("0_",)}
    n = 0
    for b in sorted(prog.bodies.values(), key=lambda x: x.key):
        if b.crate != "kolibrie" or "::tests::" in b.key or not (b.file.endswith("execute_query.rs") or b.file.endswith("execution/engine.rs")):
            continue
        for c in b.calls():
            if c.name() != "fold" or len(c.args) != 3:
                continue
            init, f = c.args[1], c.args[2]
            fn = str(f.get("fn") or "")
            op = fn.rsplit("::", 1)[-1] if f.get("k") == "const" and fn else None
            if op not in IDENT or init.get("k") != "const":
                continue
            n += 1
            R.saw(b)
            d = str(init.get("d") or init.get("v") or "")
            ok = any(tok in d for tok in IDENT[op]) and not ("MIN_POSITIVE" in d)
            if op == "max" and d.endswith("::MIN") is False and "NEG_INFINITY" not in d and "-inf" not in d:
                ok = False
            R.ob("C01-R22", "identity:%s:%s:%d" % (b.name if not b.is_closure else "closure", op, n), "the fold with `%s` in %s starts from that operator's identity (starts from %s)"
                 % (op, b.short, d), ok, where=b.where(c.ln),
                 detail=None if ok else "a start value that is not the identity takes part in the result whenever no element beats it")
    R.ob("C01-R22", "scanned", "folds with a named operator in the aggregation code: %d" % n, True)

"""C03 — SPARQL Update: WHERE once -> templates -> delete* -> insert*, atomic rejection (shape clauses)."""
from lib import facts as F
from lib import dbsinks
from lib import guards as G
from lib.taint import Taint

DEL = "DatasetIndex::delete_quad"
INS = "DatasetIndex::insert_quad"
ADAPTER_MARK = ("core::iter::adapters", "Filter<", "Map<", "Inspect<", "Enumerate<", "Copied<", "Cloned<")


def effect_points(prog, body, eff_suffix):
    """consumption points (blocks in `body`) of the effect `eff_suffix` (a DatasetIndex mutator):
    direct calls, and for closures containing the call, the call that finally consumes the lazy iterator"""
    pts = []
    for c in body.calls():
        if c.is_(eff_suffix):
            pts.append((c.bb, c, "direct"))
    for cl in prog.closures_of(body.key, recursive=False):
        fam = [cl] + prog.closures_of(cl.key)
        if not any(c.is_(eff_suffix) for x in fam for c in x.calls()):
            continue
        # the closure value in body
        for bb, i, pl, rv, s in body.assigns():
            if rv["rv"] == "aggregate" and rv.get("ak") == "closure" and rv["closure"] == cl.key:
                cur = pl["l"]
                consumer = None
                for _ in range(12):
                    nxt = None
                    for c in body.calls():
                        if any(F.op_local(a) == cur for a in c.args):
                            nxt = c
                            break
                    if nxt is None:
                        break
                    consumer = nxt
                    dty = body.local_ty(nxt.dest["l"])
                    if any(m in dty for m in ADAPTER_MARK):
                        cur = nxt.dest["l"]
                        continue
                    break
                if consumer is not None:
                    pts.append((consumer.bb, consumer, "lazy:" + cl.name))
    return pts


def success_target(body, c):
    """block where control continues when call c has succeeded (after `?` if present)"""
    t = c.target
    if t is None:
        return None
    blk = body.blocks[t]
    tt = blk["term"]
    if tt["t"] == "call" and tt.get("callee", "").endswith("Try::branch") or (tt["t"] == "call" and (tt.get("callee_pretty") or "").endswith("Try::branch")):
        if tt["args"] and F.op_local(tt["args"][0]) == c.dest["l"]:
            sw = body.blocks[tt["target"]]["term"]
            if sw["t"] == "switch":
                for v, tgt in sw["targets"]:
                    if v == "0":
                        return tgt
    return t


def err_exit_blocks(body):
    out = set()
    for c in body.calls():
        if c.name() == "from_residual" and c.dest["l"] == 0:
            out.add(c.bb)
    for bb, i, pl, rv, s in body.assigns():
        if pl["l"] == 0 and not pl["p"] and rv["rv"] == "aggregate" and rv.get("variant") == "Err":
            out.add(bb)
    return out


def run(R):
    prog = R.prog
    R.rule("C03-R1", "delete before insert: in the mutation applier no deletion effect is reachable after an insertion effect")
    R.rule("C03-R2", "single evaluation, one snapshot: execute_modify evaluates WHERE exactly once (not in a loop), both "
                     "template instantiations read that one binding sequence, and no evaluation/instantiation follows the mutation")
    R.rule("C03-R3", "atomic rejection: on the update path no Err exit is reachable after a dataset-mutating call has "
                     "succeeded; the mutation applier cannot fail; template instantiation and plan building cannot mutate quads")
    R.rule("C03-R4", "per-solution blank nodes: the blank-node map is created inside the per-solution loop and outside the per-template loop")
    R.rule("C03-R6", "complete application: the applier runs the mutator on every instantiated quad of the deletion set and of the "
                     "insertion set (the consumed iterator is the whole parameter set, with no restricting adaptor)")
    R.rule("C03-R5", "counts are mutator results: UpdateSummary fields are the counts of the delete_quad / insert_quad results")

    am = R.body("C03-R1", "execute_query::apply_mutations", crate="kolibrie")
    em = R.body("C03-R2", "execute_query::execute_modify", crate="kolibrie")
    euo = R.body("C03-R3", "execute_query::execute_update_operation", crate="kolibrie")
    it = R.body("C03-R4", "execute_query::instantiate_templates", crate="kolibrie")

    # ---------- R1 / R5
    if am is not None:
        dels = effect_points(prog, am, DEL)
        inss = effect_points(prog, am, INS)
        R.floor("C03-R1", "deletion effect points in apply_mutations", len(dels), 1)
        R.floor("C03-R1", "insertion effect points in apply_mutations", len(inss), 1)
        for ib, ic, ik in inss:
            after = am.reach_from([ib])
            bad = [d for d in dels if d[0] in after and d[0] != ib or (d[0] == ib and d[1] is not ic and False)]
            R.ob("C03-R1", "order:%s" % ik, "no deletion is applied after the insertion effect (%s)" % ik, not bad,
                 where=am.where(ic.ln), detail=None if not bad else "DELETE {x} INSERT {x} would then remove x")
        for db, dc, dk in dels:
            ok = all(am.dominates(db, ib) and db != ib for ib, ic, ik in inss)
            R.ob("C03-R1", "dominates:%s" % dk, "the deletion effect (%s) completes before any insertion effect starts" % dk, ok,
                 where=am.where(dc.ln))
        # R6: the iterator consumed at each effect point is the whole set
        for label, pts, param in (("deletions", dels, 1), ("insertions", inss, 2)):
            for bbp, c, kind in pts:
                chain, src = _iter_chain(am, c, kind)
                extra = [n for n in chain if n not in ("filter", "iter", "into_iter", "count", "for_each", "next", "by_ref")]
                # at most one filter: the effect closure itself
                nfil = chain.count("filter")
                ok = src == param and not extra and nfil <= 1
                R.ob("C03-R6", "whole-set:" + label, "the mutator is applied to every quad of `%s` (iterator chain: %s over parameter %s)"
                     % (label, chain, src), ok, where=am.where(c.ln),
                     detail=None if ok else "quads that are skipped are neither applied nor counted")
        # every insertion/deletion goes through the effect points: no other dataset mutation in the applier
        sk = dbsinks.sinks(prog)
        # signature: plain value
        R.ob("C03-R3", "applier-infallible", "apply_mutations returns a plain value (cannot reject after mutating): %s" % am.r["ret"],
             "Result<" not in am.r["ret"] and "Option<" not in am.r["ret"], where=am.where())
        # R5
        aggs = [(bb, rv, s) for bb, i, pl, rv, s in am.assigns()
                if rv["rv"] == "aggregate" and rv.get("adt", "").endswith("::UpdateSummary")]
        R.ob("C03-R5", "summary", "apply_mutations builds one UpdateSummary", len(aggs) == 1, where=am.where())
        if len(aggs) == 1:
            bb, rv, s = aggs[0]
            for fname, pts, eff in (("deleted_quads", dels, DEL), ("inserted_quads", inss, INS)):
                if fname not in rv["fields"]:
                    R.ob("C03-R5", "field:" + fname, "UpdateSummary has field %s" % fname, False, where=am.where())
                    continue
                op = rv["ops"][rv["fields"].index(fname)]
                root = am.alias_root(op)
                d = am.single_def(root) if root is not None else None
                ok = bool(d and d[0] == "call" and d[2].name() == "count" and any(p[1] is d[2] for p in pts))
                R.ob("C03-R5", "count:" + fname, "%s is the count produced by consuming the %s filter" % (fname, eff), ok,
                     where=am.where(s.get("ln")))
            # closures return exactly the mutator's bool
            for cl in prog.closures_of(am.key, recursive=False):
                calls = [c for c in cl.calls() if c.is_(DEL) or c.is_(INS)]
                if not calls:
                    continue
                ok = len(calls) == 1 and calls[0].dest["l"] == 0 and not calls[0].dest["p"] and len(cl.calls()) == 1
                R.ob("C03-R5", "filter-is-result:" + cl.name, "the filter closure %s returns exactly the mutator's `changed` flag" % cl.name,
                     ok, where=cl.where())

    # ---------- R2
    if em is not None:
        exec_bodies = {k for k, b in prog.bodies.items() if b.pretty.startswith("kolibrie::streamertail_optimizer::execution::engine::ExecutionEngine::execute")}
        R.floor("C03-R2", "ExecutionEngine::execute* bodies", len(exec_bodies), 2)
        reach_exec = dbsinks.reaching(prog, exec_bodies)
        # an evaluation of the WHERE pattern = a call that can reach the executor and receives (a value derived
        # from) the logical plan built from the WHERE pattern
        Tp = Taint(prog, em)
        plans = [c for c in em.calls() if (c.name() or "").startswith("build_logical_plan")]
        R.floor("C03-R2", "logical-plan constructions in execute_modify", len(plans), 1)
        for c in plans:
            Tp.seed(em, c.dest["l"], "plan")
        Tp.run()
        def is_plan_arg(a):
            pl = F.op_place(a)
            if pl is None or "plan" not in Tp.op_taint(em, a):
                return False
            ty = em.local_ty(pl["l"])
            return "LogicalOperator" in ty or "PhysicalOperator" in ty
        evals = [c for c in em.calls() if c.key in reach_exec and any(is_plan_arg(a) for a in c.args)]
        R.ob("C03-R2", "one-evaluation", "execute_modify evaluates the WHERE pattern exactly once (found %d evaluating calls: %s)"
             % (len(evals), [c.name() for c in evals]), len(evals) == 1, where=em.where())
        insts = [c for c in em.calls() if c.is_("execute_query::instantiate_templates")]
        apps = [c for c in em.calls() if c.is_("execute_query::apply_mutations")]
        R.floor("C03-R2", "instantiate_templates calls in execute_modify", len(insts), 2)
        R.floor("C03-R2", "apply_mutations calls in execute_modify", len(apps), 1)
        if len(evals) == 1:
            ev = evals[0]
            R.ob("C03-R2", "evaluation-not-in-loop", "the WHERE evaluation is not inside a loop", not em.loops_containing(ev.bb),
                 where=em.where(ev.ln))
            bl = ev.dest["l"]
            for n, c in enumerate(insts):
                src = em.alias_root(c.args[1]) if len(c.args) > 1 else None
                # &bindings -> deref coercion &Vec -> &[..] may go through a Deref call
                if src is not None and src != bl:
                    d = em.single_def(src)
                    if d and d[0] == "call" and d[2].name() in ("deref", "as_slice", "as_ref", "borrow") and d[2].args:
                        src = em.alias_root(d[2].args[0])
                R.ob("C03-R2", "same-snapshot:%d" % n, "template instantiation #%d reads the single WHERE result" % n, src == bl,
                     where=em.where(c.ln), detail=None if src == bl else "both templates must be instantiated from one pre-operation snapshot")
                R.ob("C03-R2", "eval-before-inst:%d" % n, "the WHERE evaluation dominates template instantiation #%d" % n,
                     em.dominates(ev.bb, c.bb), where=em.where(c.ln))
            for a in apps:
                after = em.reach_from([a.bb])
                late = [c for c in insts + evals if c.bb in after and c.bb != a.bb]
                R.ob("C03-R2", "nothing-after-mutation", "no evaluation or instantiation follows the mutation", not late,
                     where=em.where(a.ln))

    # ---------- R3
    sk = dbsinks.sinks(prog)
    R.floor("C03-R3", "dataset mutator bodies (by role)", len(sk), 6)
    mutating = dbsinks.reaching(prog, set(sk))
    entries = ["execute_query::execute_sparql_update", "execute_query::execute_update_request",
               "execute_query::execute_update_operation", "execute_query::execute_modify", "execute_query::execute_request",
               "execute_query::execute_sparql_update_compat"]
    nchk = 0
    for e in entries:
        b = R.body("C03-R3", e, crate="kolibrie")
        if b is None:
            continue
        errs = err_exit_blocks(b)
        for c in b.calls():
            if c.key not in mutating:
                continue
            nchk += 1
            st = success_target(b, c)
            after = b.reach_from([st]) if st is not None else set()
            bad = sorted(errs & after)
            callee = prog.bodies[c.key]
            ok = not bad
            lines = [b.blocks[x]["term"].get("ln") for x in bad]
            R.ob("C03-R3", "no-err-after:%s->%s" % (b.name, callee.name),
                 "%s: no Err exit is reachable after `%s` (which can mutate the dataset) has succeeded" % (b.name, callee.name), ok,
                 where=b.where(c.ln), detail=None if ok else "Err exits at lines %s: a rejected update would leave the dataset changed" % lines)
    R.floor("C03-R3", "mutating call sites on the update path", nchk, 6)
    # (iii) pure preparation steps cannot reach a dataset mutator
    for pure in ("execute_query::instantiate_templates", "execute_query::instantiate_data", "execute_query::instantiate_quad",
                 "execute_query::instantiate_term", "execute_query::allocate_blank_node"):
        b = R.body("C03-R3", pure, crate="kolibrie")
        if b is None:
            continue
        R.ob("C03-R3", "pure:" + b.name, "%s cannot reach a dataset mutator" % b.name, b.key not in mutating, where=b.where())
    blp = [b for b in prog.bodies.values() if b.crate == "kolibrie" and not b.is_closure and
           (b.name.startswith("build_logical_plan") or b.name.startswith("compile_"))
           and b.file.endswith(("streamertail_optimizer/utils.rs", "execute_query.rs"))]
    R.floor("C03-R3", "plan-building / compile bodies", len(blp), 5)
    for b in sorted(blp, key=lambda x: x.key):
        R.ob("C03-R3", "pure:" + b.name, "%s cannot reach a dataset mutator" % b.name, b.key not in mutating, where=b.where())

    # ---------- R4
    if it is not None:
        iq = [c for c in it.calls() if c.is_("execute_query::instantiate_quad")]
        R.floor("C03-R4", "instantiate_quad calls", len(iq), 1)
        loops = it.loops()
        T = Taint(prog, it)
        T.seed(it, 1, "templates")
        T.seed(it, 2, "bindings")
        T.run()

        def loop_label(h, body):
            labs = set()
            for c in it.calls():
                if c.bb in body and c.name() == "next" and c.args:
                    labs |= T.op_taint(it, c.args[0])
            return labs
        for c in iq:
            bn = it.alias_root(c.args[-1])
            d = it.single_def(bn) if bn is not None else None
            ok_new = bool(d and d[0] == "call" and d[2].name() == "new" and "HashMap" in (d[2].pretty or ""))
            R.ob("C03-R4", "map-is-fresh", "the blank-node map passed to instantiate_quad is a freshly created map", ok_new,
                 where=it.where(c.ln))
            if not ok_new:
                continue
            nb = d[1]
            in_loops = it.loops_containing(nb)
            outer = [(h, body) for h, body in in_loops if "bindings" in loop_label(h, body)]
            inner = [(h, body) for h, body in in_loops if "templates" in loop_label(h, body) and "bindings" not in
                     {l for l in loop_label(h, body)} - {"templates"} and (h, body) not in outer]
            # the inner (template) loop is any loop containing the call but not the creation
            call_loops = it.loops_containing(c.bb)
            tmpl_loops = [(h, body) for h, body in call_loops if nb not in body]
            R.ob("C03-R4", "inside-solution-loop", "the map is created inside the loop over solutions", bool(outer),
                 where=it.where(d[2].ln), detail=None if outer else "one map for all solutions merges blank nodes of different solutions")
            R.ob("C03-R4", "outside-template-loop", "the map is created outside the loop over templates (shared by one solution's templates)",
                 bool(tmpl_loops), where=it.where(d[2].ln),
                 detail=None if tmpl_loops else "a map per template would split a repeated label inside one solution")
            if outer:
                sh, sbody = min(outer, key=lambda x: len(x[1]))
                smaller = [(h, body) for h, body in in_loops if set(body) < set(sbody)]
                R.ob("C03-R4", "one-map-per-solution", "no loop between the loop over solutions and the creation of the map (the scope of a blank-node "
                     "label is the whole solution)", not smaller, where=it.where(d[2].ln),
                     detail=None if not smaller else "the map is created once per iteration of a loop nested in the solutions loop (per GRAPH block, "
                     "per chunk of templates): a label used in two such parts of one solution gets two different nodes")
    # ---------- R7: every solution instantiates every template
    R.rule("C03-R7", "every solution counts: instantiate_templates instantiates every template under every WHERE solution - the loops "
                     "range over the whole solution sequence and the whole template list, no iteration is skipped (solutions that "
                     "agree on the template's variables still get their own blank nodes), and every produced quad enters the result")
    if it is not None:
        from lib import pipeline as P
        iq = [c for c in it.calls() if c.is_("execute_query::instantiate_quad")]
        for c in iq:
            nest = sorted(it.loops_containing(c.bb), key=lambda x: len(x[1]))
            R.ob("C03-R7", "nest", "instantiate_quad is called in a two-level loop nest (found %d levels)" % len(nest), len(nest) == 2, where=it.where(c.ln))
            if len(nest) != 2:
                continue
            (ih, ib), (oh, ob) = nest
            for nm, (h, blk), param in (("templates", (ih, ib), 1), ("solutions", (oh, ob), 2)):
                drv = P.driver_of(it, h, blk)
                names, roots = P.flat(drv[2]) if drv and drv[2] else ([], [])
                whole = not [n for n in names if n not in ("iter", "into_iter", "deref")]
                isparam = len(roots) == 1 and roots[0]["k"] == "root" and roots[0]["local"] == param and not roots[0]["fields"]
                R.ob("C03-R7", "whole:" + nm, "the %s loop ranges over the whole `%s` parameter (pipeline %s over %s)" % (nm, it.local_name(param), names,
                     [P.render(r) for r in roots]), whole and isparam, where=it.where(c.ln))
            # no solution is skipped: from the start of an outer iteration the outer header is not reachable without entering the template loop
            from c11 import _body_entries
            entries = [e for e in _body_entries(it, oh, ob) if e not in ib or True]
            entries = [s2 for cc in it.calls() if cc.name() == "next" and cc.bb in ob and cc.bb not in ib for s1 in it.succ(cc.bb) for s2 in it.succ(s1)
                       if s2 in ob and it.blocks[s1]["term"]["t"] == "switch"]
            skip = oh in it.reach_from(entries, avoid={ih}) if entries else True
            R.ob("C03-R7", "no-solution-skipped", "no iteration of the solutions loop bypasses the template loop", not skip, where=it.where(c.ln),
                 detail=None if not skip else "a solution that is skipped (e.g. as a `duplicate` of an earlier one) gets no fresh blank nodes and "
                 "contributes no quads: fewer quads are inserted than the standard prescribes")
            # no template is skipped within a solution: from the inner body entry the inner header is not reachable avoiding the call
            ientries = [s2 for cc in it.calls() if cc.name() == "next" and cc.bb in ib for s1 in it.succ(cc.bb) for s2 in it.succ(s1)
                        if s2 in ib and it.blocks[s1]["term"]["t"] == "switch"]
            iskip = ih in it.reach_from(ientries, avoid={c.bb}) if ientries else True
            R.ob("C03-R7", "no-template-skipped", "no iteration of the template loop bypasses instantiate_quad", not iskip, where=it.where(c.ln))
            # every Some(quad) is inserted into the returned set
            ins = [x for x in it.calls() if x.name() == "insert" and x.bb in ib and "BTreeSet" in (x.pretty or "")]
            okins = False
            for x in ins:
                extra = []
                for cd in G.conditions(it, x.bb):
                    if cd.get("bb") is None or cd["bb"] not in ib:
                        continue
                    if cd["kind"] == "variant":
                        continue          # Ok / Continue / Some of the instantiation result
                    extra.append(cd["kind"])
                if not extra:
                    okins = True
            R.ob("C03-R7", "every-quad-kept", "every quad produced by instantiate_quad is inserted into the result, under no condition other than "
                 "`instantiation yielded a quad`", okins, where=it.where(c.ln))
    r8(R)
    r9(R)
    # allocate_blank_node retries until the label is unused and encodes that very label
    ab = R.body("C03-R4", "execute_query::allocate_blank_node", crate="kolibrie")
    if ab is not None:
        enc = [c for c in ab.calls() if c.is_("Dictionary::encode")]
        chk = [c for c in ab.calls() if c.name() == "contains_key"]
        ok = bool(enc) and bool(chk) and all(any(ab.dominates(k.bb, e.bb) for k in chk) for e in enc)
        R.ob("C03-R4", "fresh-label-checked", "allocate_blank_node checks the dictionary for the generated label before encoding it",
             ok, where=ab.where())
        if ok:
            same = _same_string(ab, chk[0].args[1], enc[0].args[1])
            R.ob("C03-R4", "fresh-label-same", "the label that is checked is the label that is encoded", same, where=ab.where(enc[0].ln))


def _same_string(b, op1, op2):
    def root(op):
        l = b.alias_root(op)
        for _ in range(6):
            if l is None:
                return None
            d = b.single_def(l)
            if d and d[0] == "call" and d[2].name() in ("deref", "as_str", "borrow", "as_ref") and d[2].args:
                l = b.alias_root(d[2].args[0])
                continue
            return l
        return l
    a, c = root(op1), root(op2)
    return a is not None and a == c


def _iter_chain(b, c, kind):
    """names of the calls from the source collection to the consuming call c, and the parameter index of the source"""
    chain = []
    cur = None
    if kind == "direct":
        # a loop: find the `next` call in the innermost loop containing c and walk from its iterator
        lps = b.loops_containing(c.bb)
        if not lps:
            return chain, None
        h, body = min(lps, key=lambda x: len(x[1]))
        nx = [x for x in b.calls() if x.bb in body and x.name() == "next"]
        if not nx:
            return chain, None
        chain.append("next")
        cur = nx[0].args[0]
    else:
        chain.append(c.name())
        cur = c.args[0]
    for _ in range(12):
        o = b.origin(cur, stop_named=False)
        if o[0] == "call":
            chain.append(o[1].name())
            if not o[1].args:
                return chain, None
            cur = o[1].args[0]
            continue
        if o[0] == "place":
            l = o[1]["l"]
            if 1 <= l <= b.nargs and not [e for e in o[1]["p"] if e["k"] != "deref"]:
                return chain, l
            d = b.single_def(l)
            if d and d[0] == "call":
                chain.append(d[2].name())
                if not d[2].args:
                    return chain, None
                cur = d[2].args[0]
                continue
            return chain, None
        return chain, None
    return chain, None


def r8(R):
    """the request's own PREFIX declarations win over remembered ones"""
    from lib.taint import Taint
    prog = R.prog
    R.rule("C03-R8", "an operation runs under its own prologue: the prefix map a request's templates, DATA block and WHERE pattern are resolved "
                     "with contains the request's PREFIX declarations, written over whatever the database remembers from earlier requests and "
                     "loaded files - request declarations are added with an overwriting operation (`extend`, `insert`), never through "
                     "`entry(..).or_insert*` or under an `is it absent` test, and nothing remembered is written over them afterwards. Otherwise an "
                     "update that re-declares a known label inserts, deletes and matches in the old namespace")
    b = R.body("C03-R8", "execute_query::prepare_extensions", crate="kolibrie")
    if b is None:
        return
    R.saw(b)
    fam = prog.family(b.key)
    T = Taint(prog, b)
    nreq = nst = 0
    for x in fam:
        for bb, i, pl, rv, st in x.assigns():
            for pp, kind in F.rv_places(rv):
                for e in pp["p"]:
                    if e["k"] == "field" and e.get("n") == "prefixes":
                        if (e.get("adt") or "").endswith("CombinedQuery"):
                            T.seed(x, pl["l"], "request")
                            nreq += 1
                        elif (e.get("adt") or "").endswith("SparqlDatabase"):
                            T.seed(x, pl["l"], "stored")
                            nst += 1
    T.run()
    R.ob("C03-R8", "reads", "prepare_extensions reads the request's prologue and the remembered prefixes (%d / %d reads)" % (nreq, nst), nreq >= 1 and nst >= 1, where=b.where())
    # the returned map
    ret = None
    for bb, i, pl, rv, st in b.assigns():
        if pl["l"] == 0 and rv["rv"] == "aggregate" and rv.get("variant") == "Ok" and rv["ops"]:
            ret = b.alias_root(rv["ops"][0])
            if ret is None and F.op_place(rv["ops"][0]):
                ret = F.op_place(rv["ops"][0])["l"]
            R.ob("C03-R8", "returned-has-request", "the prefix map handed to the operation contains the request's declarations", "request" in T.get(b, ret) if ret is not None else False,
                 where=b.where(st.get("ln")))
    # how request declarations are written into prefix maps
    soft, guarded, hard = [], [], []
    for x in fam:
        for c in x.calls():
            nm = c.name()
            if nm in ("or_insert", "or_insert_with", "or_insert_with_key", "or_default", "try_insert") and "HashMap<alloc::string::String, alloc::string::String" in " ".join(
                    x.local_ty(F.op_place(a)["l"]) for a in c.args if F.op_place(a)) or (nm in ("or_insert", "or_insert_with", "or_insert_with_key") and "Entry<" in x.local_ty((F.op_place(c.args[0]) or {"l": 0})["l"]) and "String, alloc::string::String" in x.local_ty((F.op_place(c.args[0]) or {"l": 0})["l"])):
                labs = set()
                for a in c.args:
                    labs |= T.op_taint(x, a)
                    cb = T._closure_of(x, a)
                    if cb is not None:
                        labs |= T.t.get((cb.key, 0), set())
                        for idx, _nm in cb.r.get("upvars", []):
                            labs |= T.t.get((cb.key, "up", idx), set())
                if "request" in labs:
                    soft.append((x, c))
            if nm in ("extend", "insert") and len(c.args) >= 2:
                rty = x.local_ty((F.op_place(c.args[0]) or {"l": 0})["l"])
                if "HashMap<alloc::string::String, alloc::string::String" not in rty:
                    continue
                labs = set()
                for a in c.args[1:]:
                    labs |= T.op_taint(x, a)
                if "request" in labs:
                    cds = [cd for cd in G.conditions(x, c.bb) if cd.get("kind") == "call" and cd["call"].name() in ("contains_key", "get", "is_none", "is_some")]
                    (guarded if cds else hard).append((x, c))
    R.ob("C03-R8", "overwrites", "the request's declarations are written with an overwriting operation (extend / insert: %d; entry().or_insert*: %d; under an absence test: %d)"
         % (len(hard), len(soft), len(guarded)), len(hard) >= 1 and not soft and not guarded, where=(soft or guarded or hard or [(b, None)])[0][0].where((soft or guarded or hard)[0][1].ln if (soft or guarded or hard) else None),
         detail=None if (len(hard) >= 1 and not soft and not guarded) else "a label the database already remembers keeps its old IRI: `PREFIX ex: <http://two.example/>` in the "
         "second request is ignored, the operation runs in the namespace of the first")
    # nothing remembered is written over the request's declarations in the returned map
    def src_of(op, depth=0):
        """'request' / 'stored' when the operand is (a copy / an iteration of) one of the two prefix maps"""
        if depth > 8:
            return None
        pl = F.op_place(op)
        if pl is None:
            return None
        for e in pl["p"]:
            if e["k"] == "field" and e.get("n") == "prefixes":
                return "request" if (e.get("adt") or "").endswith("CombinedQuery") else ("stored" if (e.get("adt") or "").endswith("SparqlDatabase") else None)
        d = b.single_def(pl["l"])
        if not d:
            return None
        if d[0] == "call" and d[2].args and d[2].name() in ("clone", "iter", "into_iter", "cloned", "copied", "map", "to_owned", "deref", "borrow", "as_ref"):
            return src_of(d[2].args[0], depth + 1)
        if d[0] == "assign":
            for pp, kind in F.rv_places(d[3]):
                for e in pp["p"]:
                    if e["k"] == "field" and e.get("n") == "prefixes":
                        return "request" if (e.get("adt") or "").endswith("CombinedQuery") else ("stored" if (e.get("adt") or "").endswith("SparqlDatabase") else None)
                r = src_of({"k": "copy", "pl": pp}, depth + 1)
                if r:
                    return r
        return None
    if ret is not None:
        events = []
        for d in b.defs().get(ret, []):
            if d[0] == "call" and d[2].args:
                events.append((d[2].bb, src_of(d[2].args[0]) if d[2].name() == "clone" else None, d[2]))
        for c in b.calls():
            if c.name() in ("extend", "insert") and len(c.args) >= 2 and b.alias_root(c.args[0]) == ret:
                srcs = {src_of(a) for a in c.args[1:]} - {None}
                events.append((c.bb, "request" if "request" in srcs else ("stored" if "stored" in srcs else None), c))
        reqs = [e for e in events if e[1] == "request"]
        late = [e[2] for e in events if e[1] == "stored" and any(r[0] != e[0] and b.dominates(r[0], e[0]) for r in reqs)]
        R.ob("C03-R8", "request-last", "no remembered prefix is written into the returned map after the request's declarations", not late,
             where=b.where(late[0].ln if late else None))


def r9(R):
    """a template quad whose graph name is not instantiated is skipped, not sent to the default graph"""
    from lib.taint import Taint
    prog = R.prog
    R.rule("C03-R9", "`no GRAPH block` and `GRAPH ?g with ?g unbound` are different: in instantiate_quad the outcome of instantiating the template's graph "
                     "name is never replaced by a default (`unwrap_or*`, `map_or*`, `or(..)`) - when the name cannot be instantiated for a solution the "
                     "quad is skipped, as for an unbound subject. Otherwise a DELETE / INSERT template under `GRAPH ?g` acts on the default graph for "
                     "every solution that leaves ?g unbound (`{ .. } UNION { GRAPH ?g { .. } }`, `VALUES ?g { UNDEF }`)")
    b = R.body("C03-R9", "execute_query::instantiate_quad", crate="kolibrie")
    if b is None:
        return
    R.saw(b)
    fam = prog.family(b.key)
    T = Taint(prog, b)
    ig = [(x, c) for x in fam for c in x.calls() if c.name() == "instantiate_graph"]
    if not R.ob("C03-R9", "instantiates", "instantiate_quad instantiates the graph name through instantiate_graph (found %d call)" % len(ig), len(ig) >= 1, where=b.where()):
        return
    for x, c in ig:
        T.seed(x, c.dest["l"], "graph-outcome")
    T.run()
    DEFAULTING = ("unwrap_or", "unwrap_or_default", "unwrap_or_else", "map_or", "map_or_else", "or", "or_else", "get_or_insert", "get_or_insert_with")
    cand = [(x, c) for x in fam for c in x.calls() if c.name() in DEFAULTING and c.args and "graph-outcome" in T.op_taint(x, c.args[0])
            and "GraphId" in x.local_ty((F.op_place(c.args[0]) or {"l": 0})["l"])]
    # a default is harmless where the `could not be instantiated` outcome has already left the function: the None edge of a test of the
    # outcome does not reach the defaulting call
    direct = {}
    for x, c in ig:
        ds = {c.dest["l"]}
        changed = True
        while changed:
            changed = False
            for l, defs in x.defs().items():
                if l in ds or len(defs) != 1:
                    continue
                d = defs[0]
                src = None
                if d[0] == "assign" and d[3]["rv"] in ("use", "ref", "cast", "discriminant"):
                    pp = F.op_place(d[3]["op"]) if d[3]["rv"] in ("use", "cast") else d[3]["pl"]
                    src = pp["l"] if pp else None
                elif d[0] == "call" and d[2].name() in ("branch", "from_residual", "into", "deref") and d[2].args and F.op_place(d[2].args[0]):
                    src = F.op_place(d[2].args[0])["l"]
                if src in ds:
                    ds.add(l)
                    changed = True
        direct.setdefault(x.key, set()).update(ds)
    none_targets = {}
    for x in fam:
        for bb, t in x.terms():
            if t["t"] != "switch":
                continue
            for tgt, cd in G.edge_conditions(x, bb):
                if cd.get("kind") == "variant" and cd.get("variant") == "None" and cd.get("pl") and cd["pl"]["l"] in direct.get(x.key, ()) \
                        and "GraphId" in x.local_ty(cd["pl"]["l"]):
                    none_targets.setdefault(x.key, []).append(tgt)
    bad = []
    for x, c in cand:
        tgts = none_targets.get(x.key, [])
        if not tgts or any(c.bb in x.reach_from([t]) for t in tgts):
            bad.append((x, c))
    R.ob("C03-R9", "no-default", "no default stands in for a graph name that could not be instantiated (defaulting calls on the outcome: %s)" % sorted({c.name() for x, c in bad}),
         not bad, where=(bad[0][0].where(bad[0][1].ln) if bad else b.where()),
         detail=None if not bad else "`DELETE { GRAPH ?g { ?s ?p ?o } } WHERE { { ?s ?p ?o } UNION { GRAPH ?g { ?s ?p ?o } } }` empties the default graph")

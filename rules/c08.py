"""C08 — hybrid results never certify a wrong decision (structural clauses)."""
from lib import facts as F
from lib import guards as G
from lib.taint import Taint

HPR = "shared::hybrid::HybridProbabilityResult"
AD = "shared::hybrid::AlertDecision"
CERTIFIED = ("Exact", "Bounded", "LowerBound")
ERR_TYPES = ("SddBudgetError", "CompileFailure", "HybridReason", "HybridError")


def is_test(b):
    return "::tests::" in b.key or b.unit.endswith("__test")


def threshold_op(b, op):
    pl = F.op_place(op)
    if pl is None:
        return False
    o = b.origin(op, stop_named=False)
    return o[0] == "place" and any(e["k"] == "field" and e["n"] == "threshold" for e in o[1]["p"])


def interval_source(b, op, depth=0):
    """(interval local root, lower-bound operand root) for an `interval` operand: follows Some-payload / ok / flatten / `?`
    back to the interval_from_enumeration call and returns the root of its first argument"""
    if depth > 10:
        return None
    o = b.origin(op, stop_named=False)
    if o[0] == "call":
        c = o[1]
        if c.name() == "interval_from_enumeration":
            return b.alias_root(c.args[0])
        if c.args:
            return interval_source(b, c.args[0], depth + 1)
        return None
    if o[0] == "place":
        d = b.single_def(o[1]["l"])
        if d and d[0] == "call":
            c = d[2]
            if c.name() == "interval_from_enumeration":
                return b.alias_root(c.args[0])
            if c.args:
                return interval_source(b, c.args[0], depth + 1)
    return None


def run(R):
    prog = R.prog
    R.rule("C08-R1", "decision guard: every Alert placed in a certified result is controlled by `L >= threshold` where L is the "
                     "published probability / the lower bound of the published interval; every NoAlert by `upper < threshold` "
                     "of the published interval, or by the false edge of the >= test on an exact probability")
    R.rule("C08-R5", "budget failures propagate below the controller: in every helper of hybrid.rs that itself returns a Result with a "
                     "budget / compile / reason error, the failure edge of a budgeted step never leads to an Ok return (a partial "
                     "compilation must not be handed up as if it were complete - callers add its value to certified bounds)")
    R.rule("C08-R7", "a choice of an exclusive group is never registered as an independent variable: in the lineage compiler every call of "
                     "SddManager::ensure_variable (weights p and 1-p, kind Independent) is control-dependent on the seed's kind being Independent; "
                     "exclusive choices go through ensure_variable_weights with negative weight 1 only. ensure_variable overwrites weights and kind, "
                     "so a later independent registration silently turns the choice into a Bernoulli variable and the result - still reported as "
                     "Exact - is wrong whenever a model has that choice false")
    r7(R)
    r8(R)
    r9(R)
    R.rule("C08-R6", "search states are not pruned by a partial key: in enumerate_proofs a state taken from the frontier may be dropped through "
                     "a seen-set only if the key covers both what the state has proved so far and what it still has to prove (proof and "
                     "pending) - two states at the same lineage node with the same partial proof can still differ in their remaining conjuncts")
    R.rule("C08-R2", "failures stop at NeedsExact: from the error edge of every budgeted/fallible step no certified result "
                     "(Exact/Bounded/LowerBound) is reachable except through the success edge of the exact compilation; "
                     "swallowed failures only feed metrics")
    R.rule("C08-R3", "indeterminate variants: decision() reports a stored decision only for the certified variants")
    R.rule("C08-R4", "the search bound is the weight of the partial proof: every value stored in ProofSearchState.upper_bound is 1 for "
                     "the empty proof, proof_probability of that state's own proof set, or the old bound times a seed probability "
                     "under the true edge of inserting that seed into the proof set (a seed met twice must not be counted twice)")
    bodies = [b for b in prog.bodies.values() if b.crate == "shared" and b.file.endswith("hybrid.rs") and not is_test(b) and not b.derived]
    r4(R, bodies)
    r5(R)
    r6(R)
    # ---- R1
    nsites = ncert = 0
    for b in sorted(bodies, key=lambda x: x.key):
        certs = [(bb, rv, s) for bb, i, pl, rv, s in b.assigns()
                 if rv["rv"] == "aggregate" and rv.get("adt") == HPR and rv.get("variant") in CERTIFIED]
        if not certs:
            continue
        R.saw(b)
        ncert += len(certs)
        sites = [(bb, pl, rv, s) for bb, i, pl, rv, s in b.assigns()
                 if rv["rv"] == "aggregate" and rv.get("adt") == AD and rv.get("variant") in ("Alert", "NoAlert")]
        for cbb, crv, cs in certs:
            fields = dict(zip(crv["fields"], crv["ops"]))
            dop = fields.get("decision")
            dl = b.alias_root(dop) if dop and F.op_place(dop) else None
            my_sites = []
            for sbb, spl, srv, ss in sites:
                if dl is not None and (spl["l"] == dl or b.alias_root(spl["l"]) == dl) and (sbb == cbb or cbb in b.reach_from([sbb])):
                    my_sites.append((sbb, srv, ss))
            if dop is not None and dop.get("k") == "const":
                # constant decision operand would appear as aggregate; nothing to do
                pass
            R.ob("C08-R1", "has-decision:%s:%s" % (b.short, _ord(b, cbb, certs)), "the %s result carries a decision built from Alert/NoAlert"
                 % crv["variant"], bool(my_sites), where=b.where(cs.get("ln")))
            for sbb, srv, ss in my_sites:
                nsites += 1
                variant = crv["variant"]
                dec = srv["variant"]
                conds = [G.normalize_cmp(b, c) for c in G.conditions(b, sbb) if c["kind"] == "cmp"]
                ok, why = False, ""
                if variant == "Exact":
                    pr = b.alias_root(fields["probability"])
                    for op, x, t in conds:
                        if dec == "Alert" and _rel(b, op, x, t, "Ge", pr):
                            ok = True
                        if dec == "NoAlert" and _rel(b, op, x, t, "Lt", pr):
                            ok = True
                    why = "the published probability"
                elif variant == "Bounded":
                    lo = interval_source(b, fields["interval"])
                    il = _canon(b, fields["interval"])
                    for op, x, t in conds:
                        if dec == "Alert" and (_rel(b, op, x, t, "Ge", lo) or _rel_field(b, op, x, t, "Ge", il, "lower")):
                            ok = True
                        if dec == "NoAlert" and _rel_field(b, op, x, t, "Lt", il, "upper"):
                            ok = True
                    why = "the published interval's %s bound" % ("lower" if dec == "Alert" else "upper")
                elif variant == "LowerBound":
                    lb = b.alias_root(fields["lower_bound"])
                    for op, x, t in conds:
                        if dec == "Alert" and _rel(b, op, x, t, "Ge", lb):
                            ok = True
                    why = "the published lower bound (NoAlert cannot be certified from a lower bound)"
                R.ob("C08-R1", "guard:%s:%s:%s:%s" % (b.short, variant, dec, _ord_site(b, sbb, my_sites)),
                     "%s in a %s result is controlled by the threshold test on %s" % (dec, variant, why), ok, where=b.where(ss.get("ln")),
                     detail=None if ok else "controlling comparisons: %s" % [(op, _d(b, x), _d(b, t)) for op, x, t in conds])
    R.floor("C08-R1", "certified result constructions", ncert, 4)
    R.floor("C08-R1", "decision constants judged", nsites, 6)

    # ---- R2
    ctl = R.body("C08-R2", "hybrid::evaluate_hybrid_controlled", crate="shared")
    if ctl is not None:
        b = ctl
        cert_blocks = {bb for bb, i, pl, rv, s in b.assigns() if rv["rv"] == "aggregate" and rv.get("adt") == HPR and rv.get("variant") in CERTIFIED}
        exact = [c for c in b.calls() if c.name() == "compile_lineage_to_sdd_with_clock"]
        R.ob("C08-R2", "exact-compile", "the controller falls back to exactly one exact compilation", len(exact) == 1, where=b.where())
        allowed = set()
        if len(exact) == 1:
            ok_t = _variant_edge(b, exact[0].dest["l"], "Ok")
            if ok_t is not None:
                allowed = {c for c in cert_blocks if b.dominates(ok_t, c)}
            R.ob("C08-R2", "exact-ok-edge", "certified results after the exact compilation sit under its Ok edge", bool(allowed), where=b.where(exact[0].ln))
        sw_calls = [c for c in b.calls() if c.name() in ("unwrap_or", "unwrap_or_default", "unwrap_or_else")]
        fall = []
        for c in b.calls():
            ty = b.local_ty(c.dest["l"]) if not c.dest["p"] else ""
            if "Result<" in ty and any(e in ty for e in ERR_TYPES) and c.key in prog.bodies:
                fall.append(c)
        R.floor("C08-R2", "fallible steps in the controller", len(fall), 4)
        for c in fall:
            if exact and c is exact[0]:
                continue
            if any(x in sw_calls for x in _chain_consumers(b, c)):
                continue    # swallowed: judged by the taint obligation below
            edges = _error_edges(b, c)
            R.ob("C08-R2", "error-edge:%s:%d" % (c.name(), _ordc(b, c)), "the failure of %s is handled by an explicit edge" % c.name(), bool(edges),
                 where=b.where(c.ln))
            for e in edges:
                bad = (b.reach_from([e]) & cert_blocks) - allowed
                R.ob("C08-R2", "stops:%s:%d" % (c.name(), _ordc(b, c)), "after %s fails no certified result is reachable except via the exact compilation"
                     % c.name(), not bad, where=b.where(c.ln),
                     detail=None if not bad else "certified construction at line(s) %s reachable from the failure edge" %
                     sorted({s.get("ln") for bb, i, pl, rv, s in b.assigns() if bb in bad and rv["rv"] == "aggregate" and rv.get("adt") == HPR}))
        # Unknown residual mass
        unk = []
        for bb, i, pl, rv, s in b.assigns():
            if rv["rv"] == "aggregate" and rv.get("adt", "").endswith("ResidualMass") and rv.get("variant") == "Unknown":
                unk.append((bb, pl))
        eqs = [c for c in b.calls() if c.name() in ("eq", "ne") and any(_is_residual(b, a) for a in c.args)]
        R.ob("C08-R2", "unknown-residual-tested", "the controller tests the residual mass for Unknown", bool(eqs), where=b.where())
        for c in eqs[:1]:
            # true edge of `== Unknown`
            for bb, t in b.terms():
                if t["t"] == "switch" and b.reads(t["discr"], c.dest["l"]):
                    tgt = t["otherwise"] if c.name() == "eq" else t["targets"][0][1]
                    bad = (b.reach_from([tgt]) & cert_blocks) - allowed
                    R.ob("C08-R2", "stops:unknown-residual", "with an unknown residual mass no certified result is reachable except via the exact compilation",
                         not bad, where=b.where(c.ln))
        # swallowed failures only feed metrics
        T = Taint(prog, b)
        sw = []
        for c in b.calls():
            if c.name() in ("unwrap_or", "unwrap_or_default", "unwrap_or_else") and c.args:
                if _chain_has_fallible(b, c.args[0], prog):
                    sw.append(c)
                    T.seed(b, c.dest["l"], "swallowed:%d" % c.bb)
        T.run()
        R.ob("C08-R2", "swallowing-calls", "swallowing calls enumerated (%d)" % len(sw), True)
        for bb, i, pl, rv, s in b.assigns():
            if rv["rv"] == "aggregate" and rv.get("adt") == HPR and rv.get("variant") in CERTIFIED:
                for fn, op in zip(rv["fields"], rv["ops"]):
                    if fn == "metrics":
                        continue
                    lab = {l for l in T.op_taint(b, op) if str(l).startswith("swallowed")}
                    R.ob("C08-R2", "swallowed-not-published:%s:%s:%d" % (rv["variant"], fn, _ord(b, bb, [(x,) for x in sorted(cert_blocks)])),
                         "field %s of the %s result does not depend on a swallowed failure" % (fn, rv["variant"]), not lab, where=b.where(s.get("ln")),
                         detail=None if not lab else "a failed computation replaced by a default value reaches a certified field")

    # ---- R3
    dec = None
    for x in prog.bodies.values():
        if x.self_adt == HPR and x.name == "decision" and not x.is_closure:
            dec = x
    R.anchor("C08-R3", "HybridProbabilityResult::decision", dec)
    if dec is not None:
        adt = prog.adt(HPR)
        variants = [v["name"] for v in adt["variants"]]
        for bb, t in dec.terms():
            if t["t"] != "switch":
                continue
            ecs = G.edge_conditions(dec, bb)
            for tgt, c in ecs:
                if c["kind"] != "variant":
                    continue
                names = [c["variant"]] if c.get("variant") else c.get("one_of", [])
                for nm in names:
                    if nm in CERTIFIED:
                        continue
                    # on this edge the returned decision must be Indeterminate
                    region = {k for k in dec.reachable_blocks() if dec.dominates(tgt, k)} if dec.pred(tgt) == [bb] else {tgt}
                    vals = [rv.get("variant") for b2, i, pl, rv, s in dec.assigns() if b2 in region and pl["l"] == 0 and rv["rv"] == "aggregate"]
                    ok = vals == ["Indeterminate"]
                    if dec.blocks[tgt]["term"]["t"] == "unreachable":
                        continue
                    R.ob("C08-R3", "indeterminate:" + str(nm), "decision() of a %s result is Indeterminate (found %s)" % (nm, vals), ok, where=dec.where())
        R.ob("C08-R3", "variants", "result variants known to the checker: %s" % variants,
             set(variants) == {"Exact", "LowerBound", "Bounded", "NeedsExact", "UnsafeApproximation"}, where=adt["file"])


PSS = "shared::hybrid::ProofSearchState"
THROUGH = ("branch", "ok_or", "ok_or_else", "unwrap", "expect", "map_err", "ok", "into", "from", "clone", "unwrap_or")


def r5(R, rule="C08-R5", file_suffix="hybrid.rs", err_types=None, floor=5):
    prog = R.prog
    n = 0
    ERRS = err_types or ERR_TYPES
    for b in sorted(prog.bodies.values(), key=lambda x: x.key):
        if b.crate != "shared" or not b.file.endswith(file_suffix) or is_test(b) or b.is_closure:
            continue
        rt = b.local_ty(0)
        if "Result<" not in rt or not any(e in rt for e in ERRS):
            continue
        oks = {bb for bb, i, pl, rv, s in b.assigns() if pl["l"] == 0 and not pl["p"] and rv["rv"] == "aggregate" and rv.get("variant") == "Ok"}
        for c in b.calls():
            ty = b.local_ty(c.dest["l"]) if not c.dest["p"] else ""
            if not ("Result<" in ty and any(e in ty for e in ERRS)):
                continue
            n += 1
            R.saw(b)
            edges = _error_edges(b, c)
            if not edges:
                # result returned as is / passed on: fine (the error travels with it)
                continue
            bad = set()
            for e in edges:
                bad |= b.reach_from([e]) & oks
            R.ob(rule, "propagates:%s:%s:%d" % (b.name, c.name(), _ordc(b, c)), "in %s a failure of %s never ends in an Ok return" % (b.name, c.name()),
                 not bad, where=b.where(c.ln),
                 detail=None if not bad else "an Ok value is built on a path from the failure edge: the caller treats a partial result (e.g. the count "
                 "of only the proofs compiled before the deadline) as complete and publishes bounds that exclude the true probability")
    R.floor(rule, "budgeted steps inside Result-returning helpers", n, floor)


def r6(R):
    from lib import pipeline as P
    prog = R.prog
    ep = R.body("C08-R6", "hybrid::enumerate_proofs", crate="shared")
    if ep is None:
        return
    R.saw(ep)
    n = 0
    fam = prog.family(ep.key)
    for x in fam:
        for c in x.calls():
            if c.name() != "insert" or len(c.args) != 2 or not any(k in (c.pretty or "") for k in ("HashSet", "BTreeSet")):
                continue
            # used as a filter: its boolean decides a branch
            used = any(t["t"] == "switch" and F.op_local(t["discr"]) is not None and x.alias_root(t["discr"]) == c.dest["l"] for bb, t in x.terms())
            if not used:
                for bb, i, pl, rv, st in x.assigns():
                    if rv["rv"] == "unop" and rv["op"] == "Not" and F.op_place(rv["a"]) is not None and F.op_place(rv["a"])["l"] == c.dest["l"]:
                        used = True
            if not used:
                continue
            n += 1
            der = P.derives(prog, x, F.op_place(c.args[1])["l"], at_bb=c.bb) if F.op_place(c.args[1]) is not None else set()
            # fields of the search state that reach the key
            flds = set()
            kl = F.op_place(c.args[1])
            seen = set()
            work = [kl["l"]] if kl is not None else []
            while work:
                l = work.pop()
                if l in seen:
                    continue
                seen.add(l)
                for d in x.defs().get(l, []):
                    ops = []
                    if d[0] in ("assign", "partial"):
                        ops = [p2 for p2, k2 in F.rv_places(d[3])]
                    elif d[0] in ("call", "partial_call"):
                        # only whole-value steps: an element popped / looked up from a field does not stand for the field
                        if d[2].name() in ("clone", "deref", "to_vec", "as_slice", "as_ref", "borrow", "iter", "into_iter", "cloned", "copied", "collect",
                                           "to_owned", "into", "from", "sorted", "as_mut", "deref_mut"):
                            ops = [F.op_place(a) for a in d[2].args if F.op_place(a) is not None]
                    for p2 in ops:
                        for e in p2["p"]:
                            if e["k"] == "field" and (e.get("adt") or "").endswith("ProofSearchState"):
                                flds.add(e["n"])
                        work.append(p2["l"])
            state_key = bool(flds)
            ok = (not state_key) or {"proof", "pending"} <= flds
            R.ob("C08-R6", "key:%d" % n, "a seen-set that filters search states is keyed on the whole state (state fields in the key: %s)" % sorted(flds), ok,
                 where=x.where(c.ln), detail=None if ok else "states that differ only in their remaining conjuncts are merged: proofs reachable from the dropped "
                 "state disappear from both the emitted set and the frontier, the enumeration looks exhausted and an `exact` probability that is too small is certified")
    R.ob("C08-R6", "sites", "seen-set filters in enumerate_proofs examined (%d)" % n, True, where=ep.where())


def _value_call(b, op, depth=0):
    """the call that produced a value, looking through `?` / Option plumbing"""
    if depth > 12:
        return None
    pl = F.op_place(op)
    if pl is None:
        return None
    d = b.single_def(pl["l"])
    if d is None:
        return None
    if d[0] == "call":
        c = d[2]
        if c.name() in THROUGH and c.args:
            return _value_call(b, c.args[0], depth + 1)
        return c
    if d[0] == "assign" and d[3]["rv"] == "use":
        return _value_call(b, d[3]["op"], depth + 1)
    return None


def _proof_root(b, op):
    """local X if the operand is (a reference to) X.proof"""
    o = b.origin(op, stop_named=False)
    if o[0] == "place":
        f = [e for e in o[1]["p"] if e["k"] == "field"]
        if len(f) == 1 and f[0].get("n") == "proof" and f[0].get("adt") == PSS:
            return o[1]["l"]
    return None


def r4(R, bodies):
    nw = 0
    for b in sorted(bodies, key=lambda x: x.key):
        for bb, i, pl, rv, s in b.assigns():
            # construction
            if rv["rv"] == "aggregate" and rv.get("adt") == PSS and "upper_bound" in (rv.get("fields") or []):
                nw += 1
                R.saw(b)
                ub = rv["ops"][rv["fields"].index("upper_bound")]
                pr = rv["ops"][rv["fields"].index("proof")]
                c = _value_call(b, pr)
                one = ub.get("k") == "const" and str(ub.get("d") or ub.get("v") or "").startswith("1")
                empty = c is not None and c.name() in ("new", "default")
                R.ob("C08-R4", "initial:%s:%d" % (b.short, nw), "%s builds a search state with bound 1 only for the empty proof" % b.short,
                     one and empty, where=b.where(s["ln"]))
                continue
            if not (pl["p"] and pl["p"][-1].get("n") == "upper_bound" and pl["p"][-1].get("adt") == PSS):
                continue
            nw += 1
            R.saw(b)
            x = pl["l"]
            ok = False
            why = "the value is neither proof_probability of the state's proof set nor a guarded incremental product"
            if rv["rv"] == "use":
                c = _value_call(b, rv["op"])
                if c is not None and c.name() == "proof_probability" and c.args and _proof_root(b, c.args[0]) == x:
                    ok = True
            elif rv["rv"] == "binop" and rv["op"] == "Mul":
                # incremental: sound only when the seed was not in the proof set before
                for c in b.calls():
                    if c.name() == "insert" and c.args and _proof_root(b, c.args[0]) == x and not c.dest["p"]:
                        for b2, t in b.terms():
                            if t["t"] == "switch" and b.reads(t["discr"], c.dest["l"]):
                                false_t = [tgt for v, tgt in t["targets"] if str(v) == "0"]
                                true_t = t.get("otherwise")
                                if true_t is not None and true_t not in false_t and b.dominates(true_t, bb) and b.pred(true_t) == [b2]:
                                    ok = True
                if not ok:
                    why = "the bound is multiplied without testing that the seed is new to the proof set: a seed reached twice on one path is squared, the bound sinks below the proof's weight and the reported interval can exclude the true probability"
            R.ob("C08-R4", "bound-write:%s:%d" % (b.short, nw), "%s stores a sound bound in ProofSearchState.upper_bound" % b.short, ok,
                 where=b.where(s["ln"]), detail=None if ok else why)
    R.floor("C08-R4", "writes of ProofSearchState.upper_bound", nw, 2)


def _d(b, op):
    pl = F.op_place(op)
    if pl is None:
        return op.get("d")
    o = b.origin(op, stop_named=True)
    if o[0] == "place":
        return (b.local_name(o[1]["l"]) or "_%d" % o[1]["l"]) + "".join("." + e["n"] for e in o[1]["p"] if e["k"] == "field")
    return o[0]


def _rel(b, op, x, t, want, root):
    """normalised relation `x op t` states `<root> want threshold`"""
    if root is None:
        return False
    if threshold_op(b, t) and F.op_place(x) is not None and b.alias_root(x) == root:
        return op == want
    if threshold_op(b, x) and F.op_place(t) is not None and b.alias_root(t) == root:
        return G.SWAP[op] == want
    return False


def _canon(b, op):
    o = b.origin(op, stop_named=False)
    if o[0] != "place":
        return None
    return (o[1]["l"], tuple((e["k"], e.get("n", e.get("i"))) for e in o[1]["p"] if e["k"] != "deref"))


def _rel_field(b, op, x, t, want, interval_canon, field):
    def is_f(o):
        if F.op_place(o) is None or interval_canon is None:
            return False
        c = _canon(b, o)
        return c is not None and c[0] == interval_canon[0] and c[1] == interval_canon[1] + (("field", field),)
    if threshold_op(b, t) and is_f(x):
        return op == want
    if threshold_op(b, x) and is_f(t):
        return G.SWAP[op] == want
    return False


def _ord(b, bb, certs):
    blocks = sorted({c[0] for c in certs})
    return blocks.index(bb) if bb in blocks else -1


def _ord_site(b, bb, sites):
    blocks = sorted({s[0] for s in sites})
    return blocks.index(bb)


def _ordc(b, c):
    same = sorted([x.bb for x in b.calls() if x.name() == c.name()])
    return same.index(c.bb)


def _variant_edge(b, local, variant):
    """target block of the switch on discriminant(local) for `variant`"""
    for bb, t in b.terms():
        if t["t"] != "switch":
            continue
        for tgt, c in G.edge_conditions(b, bb):
            if c["kind"] == "variant" and F.op_place({"k": "copy", "pl": c["pl"]}) is not None and c["pl"]["l"] == local and not c["pl"]["p"]:
                if c.get("variant") == variant:
                    return tgt
    return None


def _error_edges(b, c, depth=0):
    """blocks entered when call c failed: Err/Break/None edges of the switch on (a value derived from) its result"""
    out = []
    locs = {c.dest["l"]}
    # follow through ok()/flatten()/map()/map_err()/branch() chains
    for _ in range(6):
        more = set()
        for x in b.calls():
            if x.args and F.op_local(x.args[0]) in locs and x.name() in ("ok", "flatten", "map", "map_err", "branch", "and_then") and not x.dest["p"]:
                more.add(x.dest["l"])
        if more <= locs:
            break
        locs |= more
    for bb, t in b.terms():
        if t["t"] != "switch":
            continue
        for tgt, cnd in G.edge_conditions(b, bb):
            if cnd["kind"] == "variant" and cnd["pl"]["l"] in locs and not cnd["pl"]["p"]:
                v = cnd.get("variant")
                if v in ("Err", "Break", "None"):
                    out.append(tgt)
    return out


def _is_residual(b, op):
    pl = F.op_place(op)
    if pl is None:
        return False
    o = b.origin(op, stop_named=False)
    return o[0] == "place" and any(e["k"] == "field" and e["n"] == "residual" for e in o[1]["p"])


def _chain_has_fallible(b, op, prog, depth=0):
    if depth > 8:
        return False
    o = b.origin(op, stop_named=False)
    if o[0] == "call":
        c = o[1]
        ty = b.local_ty(c.dest["l"]) if not c.dest["p"] else ""
        if "Result<" in ty and any(e in ty for e in ERR_TYPES) and c.key in prog.bodies:
            return True
        if c.args:
            return _chain_has_fallible(b, c.args[0], prog, depth + 1)
    return False


def _chain_consumers(b, c):
    """calls that (transitively) take the result of c as their receiver"""
    out = []
    locs = {c.dest["l"]}
    for _ in range(8):
        more = set()
        for x in b.calls():
            if x.args and F.op_local(x.args[0]) in locs and not x.dest["p"] and x not in out:
                out.append(x)
                more.add(x.dest["l"])
        if more <= locs:
            break
        locs |= more
    return out



def r7(R):
    from lib import guards as G
    prog = R.prog
    b = R.body("C08-R7", "hybrid::compile_lineage_to_sdd_with_clock", crate="shared")
    if b is None:
        return
    R.saw(b)
    calls = [(x, c) for x in prog.family(b.key) for c in x.calls() if c.name() == "ensure_variable"]
    weights = [(x, c) for x in prog.family(b.key) for c in x.calls() if c.name() == "ensure_variable_weights"]
    R.ob("C08-R7", "registers", "the lineage compiler registers variables (independent: %d site, with explicit weights: %d site)" % (len(calls), len(weights)),
         len(calls) + len(weights) >= 1, where=b.where())
    for x, c in calls:
        conds = G.conditions(x, c.bb)
        ok = any(cd.get("kind") == "variant" and cd.get("variant") == "Independent" and (cd.get("adt") or "").endswith("SeedKind") for cd in conds)
        R.ob("C08-R7", "independent-only", "ensure_variable is called only for a seed whose kind was matched as Independent", ok, where=x.where(c.ln),
             detail=None if ok else "every referenced seed is (re)registered as independent, also the choices of an exclusive group: their negative weight "
             "becomes 1-p while their unreferenced siblings keep 1")


def r8(R):
    """the mutual-exclusion constraint of a group ranges over all its choices"""
    prog = R.prog
    R.rule("C08-R8", "exactly one of the *whole* group: the variables handed to the exactly-one constraint the lineage compiler conjoins for an "
                     "exclusive group are taken from the seed table's member list of that group (`seeds.group(g)`), not collected from the seeds "
                     "the lineage happens to mention. All choices are registered as variables with weights (p, 1); a constraint over the "
                     "mentioned ones only loses every world in which an unmentioned choice is selected, and the result is still reported as exact")
    b = R.body("C08-R8", "hybrid::compile_lineage_to_sdd_with_clock", crate="shared")
    if b is None:
        return
    R.saw(b)
    fam = prog.family(b.key)
    sinks = [(x, c) for x in fam for c in x.calls() if c.name() in ("try_exactly_one", "exactly_one") and len(c.args) >= 2]
    if not R.ob("C08-R8", "constrains", "the lineage compiler conjoins an exactly-one constraint (found %d site)" % len(sinks), len(sinks) >= 1, where=b.where()):
        return
    T = Taint(prog, b)
    nsrc = 0
    for x in fam:
        for c in x.calls():
            if c.name() == "group" and c.key and "Seed" in (c.pretty or c.key):
                T.seed(x, c.dest["l"], "members")
                nsrc += 1
            # ids of the referenced set: what collect_seed_ids filled
            if c.name() == "collect_seed_ids" and len(c.args) >= 3:
                pl = F.op_place(c.args[2])
                if pl is not None:
                    root = x.alias_root(c.args[2])
                    T.seed(x, root if isinstance(root, int) else pl["l"], "referenced")
    T.run()
    R.ob("C08-R8", "member-list", "the seed table's member list of a group is read (found %d call of group())" % nsrc, nsrc >= 1, where=b.where())
    for x, c in sinks:
        labs = T.op_taint(x, c.args[1])
        ok = "members" in labs
        R.ob("C08-R8", "whole-group", "the variables of the exactly-one constraint derive from the group's member list (derive from: %s)" % sorted(labs), ok,
             where=x.where(c.ln), detail=None if ok else "`a | x` with `a` the 0.2 choice of a {0.2, 0.3, 0.5} group and `x` independent at 0.5 is reported "
             "as exactly 0.2 (truth 0.6): the worlds that select the two unmentioned choices satisfy no `exactly one of {a}`")


def r9(R):
    """the connective fold of the lineage compiler visits every child, or stops on the absorbing constant of *its* operator"""
    from lib import guards as G
    prog = R.prog
    R.rule("C08-R9", "a conjunction / disjunction is compiled from all its children: the loop of the lineage compiler that folds the children of an And / Or "
                     "node into an accumulator (`acc = try_apply(acc, child, op)`) is left only when the children are exhausted or an error is "
                     "propagated - or on a test that involves the operator as well as the accumulator (FALSE absorbs And, TRUE absorbs Or; the other "
                     "constant is the *neutral* element: stopping on it drops the rest of the formula and reports a certified result for another one)")
    b = R.body("C08-R9", "hybrid::compile_lineage_to_sdd_with_clock", crate="shared")
    if b is None:
        return
    n = 0
    # the compiler proper is a nested fn item (`fn compile`) of the entry point: bodies under its path count as well
    scope = {x.key: x for x in prog.family(b.key)}
    for y in prog.bodies.values():
        if y.key.startswith(b.key + "::") and y.crate == "shared":
            for x in prog.family(y.key):
                scope[x.key] = x
    for x in sorted(scope.values(), key=lambda v: v.key):
        for c in x.calls():
            if c.name() not in ("try_apply", "apply") or len(c.args) < 4:
                continue
            # a fold: the result is stored back into the first operand
            if x.alias_root(c.args[1]) is None or x.alias_root(c.args[1]) != x.alias_root(c.dest["l"]) and not any(
                    d[0] in ("call", "partial_call") and d[2] is c for d in x.defs().get(x.alias_root(c.args[1]), [])):
                pass
            loops = x.loops_containing(c.bb)
            if not loops:
                continue
            h, body = min(loops, key=lambda hl: len(hl[1]))
            # accumulator: the first operand is the value the result is stored back into
            acc = x.alias_root(c.args[1])
            n += 1
            R.saw(x)
            bad = []
            for k in sorted(body):
                for s2 in x.succ(k):
                    if s2 in body:
                        continue
                    t = x.blocks[k]["term"]
                    # iterator exhausted: the switch on `next()`
                    cds = G.conditions(x, s2)
                    if x.blocks[s2]["term"]["t"] in ("resume", "unreachable") or t["t"] in ("drop",) and False:
                        continue
                    via_next = any(cd.get("kind") == "variant" and cd.get("variant") == "None" and cd.get("bb") in body for cd in cds)
                    via_err = any(cd.get("kind") == "variant" and cd.get("variant") in ("Break", "Err") and cd.get("bb") in body for cd in cds)
                    cleanup = x.blocks[s2].get("cleanup") or t["t"] in ("call", "drop", "assert") and s2 == t.get("unwind")
                    if via_next or via_err or cleanup:
                        continue
                    on_op = any(cd.get("bb") in body and ((cd.get("kind") == "call" and any("BoolOp" in x.local_ty(F.op_place(a)["l"]) for a in cd["call"].args if F.op_place(a)))
                                                          or (cd.get("kind") == "variant" and "BoolOp" in str(cd.get("adt")))) for cd in cds)
                    if not on_op:
                        bad.append((k, s2))
            R.ob("C08-R9", "all-children:%d" % n, "the fold over the children in %s is left only at the end, on an error, or on a test of the operator (other exits: %s)"
                 % (x.short, bad), not bad, where=x.where(c.ln),
                 detail=None if not bad else "`x OR NOT(x AND y)` AND z: the first child compiles to TRUE, the loop stops, z is never conjoined and the result 1.0 is "
                 "published as exact")
    R.floor("C08-R9", "connective folds in the lineage compiler", n, 1)

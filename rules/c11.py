"""C11 — multi-window results are joins of what each window itself reported (structural clauses)."""
from lib import facts as F
from lib import writers as W
import c10

ENG = "kolibrie::rsp_engine::RSPEngine"


def run(R):
    prog = R.prog
    R.rule("C11-R1", "static store isolation: static_db is written only by add_static_ntriples (and construction), is not captured "
                     "by any window processor, and the static plan is executed only against it")
    R.rule("C11-R2", "per-window isolation: the store a window's plan is executed against is owned by that window (created "
                     "inside the per-window loop / per-window scope), not one store shared by all windows")
    adt = R.anchor("C11-R1", "adt RSPEngine", prog.adt(ENG))
    if not adt:
        return
    fields = [f["name"] for f in adt["variants"][0]["fields"]]
    R.ob("C11-R1", "field", "RSPEngine keeps a separate static_db", "static_db" in fields, where=adt["file"])
    # who touches static_db (any access: the field is an Arc<Mutex<..>> so writes go through lock())
    users = {}
    for b in prog.bodies.values():
        if b.crate != "kolibrie":
            continue
        for bb, i, pl, rv, s in b.assigns():
            for p, kind in F.rv_places(rv):
                if F.place_has_field(p, ENG, "static_db"):
                    root = prog.bodies.get(b.root) if b.is_closure else b
                    users.setdefault(root.key, root)
    R.floor("C11-R1", "bodies that access static_db", len(users), 2)
    # writers: bodies where a SparqlDatabase mutator is reached through a guard of static_db
    for key, b in sorted(users.items()):
        fam = prog.family(key)
        muts = []
        for x in fam:
            for c in x.calls():
                if c.name() in ("parse_ntriples_and_add", "add_triple", "add_quad", "delete_triple", "delete_quad", "parse_turtle", "parse_rdf",
                                "parse_n3", "parse_ntriples", "execute_update", "clear") and c.args:
                    if _from_static(x, c.args[0]):
                        muts.append(c)
        if muts:
            ok = b.name in ("add_static_ntriples", "new", "with_static_data", "build")
            R.ob("C11-R1", "static-writer:" + b.short, "static data is loaded only by the static-data API (writer: %s)" % b.pretty, ok, where=b.where(muts[0].ln))
    # processor closure does not capture static_db
    procs = c10.find_processor(prog)
    R.ob("C11-R1", "processor", "window processor located", len(procs) == 1)
    if len(procs) == 1:
        rw, p = procs[0]
        caps = [nm for idx, nm in p.r.get("upvars", [])]
        R.ob("C11-R1", "not-captured", "the window processor does not capture the static store (captures: %s)" % caps,
             not any("static" in c for c in caps), where=p.where())
        # the values captured do not derive from the static_db field
        agg = None
        for bb, i, pl, rv, s in rw.assigns():
            if rv["rv"] == "aggregate" and rv.get("ak") == "closure" and rv["closure"] == p.key:
                agg = rv
        bad = []
        if agg is not None:
            for op in agg["ops"]:
                if _derives_from_field(rw, op, "static_db"):
                    bad.append(op)
        R.ob("C11-R1", "capture-origin", "no captured value of the processor derives from RSPEngine.static_db", agg is not None and not bad, where=rw.where())
    # the window store receives content only from the window processor
    if len(procs) == 1:
        rw, p = procs[0]
        pf = {x.key for x in prog.family(p.key)}
        n = 0
        for b in prog.bodies.values():
            if b.crate != "kolibrie" or b.unit.endswith("__test"):
                continue
            for c in b.calls():
                if (c.trait or "") == c10.R2R_TRAIT and c.name() in ("add", "remove", "load_triples"):
                    n += 1
                    # the constructor may load the initial ABox given by the builder (explicit API, before any window fires)
                    ok = b.key in pf or (c.name() == "load_triples" and b.name == "new" and b.self_adt == ENG)
                    R.ob("C11-R1", "window-store-writer:%s:%s" % (b.short, c.name()), "the window store is loaded/evicted only by the window "
                         "processor (found R2ROperator::%s in %s)" % (c.name(), b.pretty), ok, where=b.where(c.ln),
                         detail=None if ok else "content from another source (e.g. static data) becomes visible to window blocks")
        R.floor("C11-R1", "loads/evictions of the window store", n, 2)
    # execute_plan_as_bindings runs against its static_db parameter
    ep = R.body("C11-R1", "rsp_engine::execute_plan_as_bindings", crate="kolibrie")
    if ep is not None:
        ex = [c for c in ep.calls() if c.name() == "execute" and "ExecutionEngine" in (c.pretty or "")]
        ok = len(ex) == 1 and _guard_of_param(ep, ex[0].args[1], 1)
        R.ob("C11-R1", "static-plan-on-static-db", "the static plan is executed against the static store it is given", ok, where=ep.where())
        # every caller passes the engine's static_db
        for k in sorted(prog.callers().get(ep.key, ())):
            cb = prog.bodies[k]
            for c in cb.calls():
                if c.key == ep.key:
                    ok = _derives_from_name(cb, c.args[0], "static_db")
                    R.ob("C11-R1", "static-arg:" + cb.short, "%s runs the static plan on the static store" % cb.pretty, ok, where=cb.where(c.ln))
    # ---- R2
    if len(procs) == 1:
        rw, p = procs[0]
        agg_bb = None
        store_op = None
        for bb, i, pl, rv, s in rw.assigns():
            if rv["rv"] == "aggregate" and rv.get("ak") == "closure" and rv["closure"] == p.key:
                agg_bb = bb
                for (idx, nm), op in zip(sorted(p.r.get("upvars", [])), rv["ops"]):
                    pass
                # the captured store: the operand of Mutex<Box<dyn R2ROperator>> type
                for op in rv["ops"]:
                    pl2 = F.op_place(op)
                    if pl2 is not None and "R2ROperator" in rw.local_ty(pl2["l"]) and "Mutex" in rw.local_ty(pl2["l"]):
                        store_op = op
        R.ob("C11-R2", "store-captured", "the processor captures the store it queries", store_op is not None, where=rw.where())
        if store_op is not None:
            # where does the captured store come from? a clone of self.r2r (shared) or something created per window
            shared = _derives_from_field(rw, store_op, "r2r")
            lp = rw.loops_containing(agg_bb)
            created_in_loop = False
            root = rw.alias_root(store_op)
            d = rw.single_def(root) if root is not None else None
            if d and d[0] == "call" and lp:
                cname = d[2].name()
                inloop = any(d[1] in body for h, body in lp)
                created_in_loop = inloop and cname in ("new", "default") and not shared
            ok = created_in_loop and not shared
            R.ob("C11-R2", "store-per-window", "each window's plan runs against a store owned by that window", ok, where=rw.where(),
                 detail=None if ok else "every processor receives a clone of the single RSPEngine.r2r handle; window contents of all "
                 "streams share one default graph and each window plan matches the other windows' items")
    r3(R)
    r4(R)
    r5(R)
    r6(R)
    r7(R)
    # conforming sibling (cited): execute_window_plans_on_external_buckets builds a fresh database per window
    sib = prog.one("rsp_engine::execute_window_plans_on_external_buckets", crate="kolibrie")
    if sib is not None:
        news = [c for c in sib.calls() if c.name() == "new" and "SparqlDatabase" in (c.pretty or "")]
        ex = [c for c in sib.calls() if c.name() == "execute" and "ExecutionEngine" in (c.pretty or "")]
        ok = bool(news) and bool(ex) and all(sib.loops_containing(c.bb) for c in news + ex)
        R.ob("C11-R2", "sibling-per-window", "the external-bucket path builds a fresh database inside the per-window loop and queries it",
             ok, where=sib.where())


def _from_static(x, op, depth=0):
    return _derives_from_name(x, op, "static_db") or _derives_from_field(x, op, "static_db")


def _derives_from_field(b, op, field, depth=0):
    if depth > 10:
        return False
    o = b.origin(op, stop_named=False)
    if o[0] == "place":
        if any(e["k"] == "field" and e["n"] == field for e in o[1]["p"]):
            return True
        d = b.single_def(o[1]["l"])
        if d and d[0] == "call" and d[2].args:
            return _derives_from_field(b, d[2].args[0], field, depth + 1)
        return False
    if o[0] == "call" and o[1].args:
        return _derives_from_field(b, o[1].args[0], field, depth + 1)
    return False


def _derives_from_name(b, op, name, depth=0):
    if depth > 10:
        return False
    o = b.origin(op, stop_named=True)
    if o[0] == "place":
        l = o[1]["l"]
        if (b.local_name(l) or "") == name:
            return True
        if b.is_closure and l == 1:
            for e in o[1]["p"]:
                if e["k"] == "field":
                    for idx, nm in b.r.get("upvars", []):
                        if idx == e["i"] and nm == name:
                            return True
                    break
        if any(e["k"] == "field" and e["n"] == name for e in o[1]["p"]):
            return True
        d = b.single_def(l)
        if d and d[0] == "call" and d[2].args:
            return _derives_from_name(b, d[2].args[0], name, depth + 1)
        if d and d[0] == "assign":
            src = d[3].get("pl") or F.op_place(d[3].get("op") or {})
            if src is not None:
                return _derives_from_name(b, {"k": "copy", "pl": src}, name, depth + 1)
        return False
    if o[0] == "call" and o[1].args:
        return _derives_from_name(b, o[1].args[0], name, depth + 1)
    return False


def _guard_of_param(b, op, param, depth=0):
    if depth > 10:
        return False
    o = b.origin(op, stop_named=False)
    if o[0] == "place":
        l = o[1]["l"]
        if l == param:
            return True
        d = b.single_def(l)
        if d and d[0] == "call" and d[2].args:
            return _guard_of_param(b, d[2].args[0], param, depth + 1)
        return False
    if o[0] == "call" and o[1].args:
        return _guard_of_param(b, o[1].args[0], param, depth + 1)
    return False


def r3(R):
    """the natural join of window results / static bindings compares every shared variable before merging two rows"""
    from lib import guards as G
    prog = R.prog
    R.rule("C11-R3", "join compatibility: natural_join merges two binding rows only after a check that ranges over every entry of one "
                     "row, looks the variable up in the other row and compares the values; the merge is controlled by that check")
    nj = R.body("C11-R3", "rsp_engine::natural_join", crate="kolibrie")
    if nj is None:
        return
    ROW = "std::collections::hash::map::HashMap<alloc::string::String, alloc::string::String>"
    fam = prog.family(nj.key)
    pushes = []
    for x in fam:
        for c in x.calls():
            if c.name() in ("push", "extend") and len(c.args) == 2:
                pl = F.op_place(c.args[1])
                if pl is not None and x.local_ty(pl["l"]).replace("&", "").strip() == ROW:
                    pushes.append((x, c))
    R.floor("C11-R3", "row emissions in natural_join", len(pushes), 1)
    for x, pc in pushes:
        # compatibility loops: loops that iterate a row (next() on an iterator over a row map), look a key up in a row (`get`)
        # and compare values (eq/ne)
        ok = False
        why = "no loop over the entries of a row with a lookup in the other row and a value comparison"
        for h, body in x.loops():
            calls_in = [c for c in x.calls() if c.bb in body]
            row_iter = any(c.name() == "next" and c.args and "hash::map::Iter<'_, alloc::string::String, alloc::string::String>" in x.local_ty(F.op_place(c.args[0])["l"]) for c in calls_in if F.op_place(c.args[0]))
            lookups = [c for c in calls_in if c.name() in ("get", "contains_key") and c.args and ROW in x.local_ty(F.op_place(c.args[0])["l"]) ]
            cmps = [c for c in calls_in if c.name() in ("ne", "eq")]
            # a comparison delegated to a helper of this crate (`same_term(a, b)`): it has to be the identity of the two terms
            for c in calls_in:
                hb = prog.bodies.get(c.key)
                if hb is None or hb.crate != "kolibrie" or hb.is_closure or hb.local_ty(0) != "bool" or hb.nargs != 2:
                    continue
                if not all("str" in hb.local_ty(i) or "String" in hb.local_ty(i) for i in (1, 2)):
                    continue
                inner = sorted({cc.name() for y in prog.family(hb.key) for cc in y.calls()})
                other = [n for n in inner if n not in ("eq", "ne", "deref", "as_str", "borrow", "as_ref", "as_bytes")]
                ident = ("eq" in inner or "ne" in inner) and not other
                R.ob("C11-R3", "identity:" + hb.name, "the helper `%s` that decides whether two values of a shared variable agree is the identity of terms "
                     "(it also calls: %s)" % (hb.name, other), ident, where=hb.where(),
                     detail=None if ident else "rows that bind the shared variable to different terms (`21` and `21.0`, two integers beyond 2^53) are joined and "
                     "the emitted row carries only one of them: restricted to the other block's variables it is not an answer over what that window reported")
                if "eq" in inner or "ne" in inner:
                    cmps.append(c)
            if not (row_iter and lookups and cmps):
                continue
            if pc.bb in body and h == min((hh for hh, bd in x.loops() if pc.bb in bd), key=lambda v: 0, default=None):
                pass
            # flags: bool locals initialised before the loop and re-assigned in a block the loop header dominates (in the body or on
            # a `break` edge out of it)
            flags = set()
            for l, ds in x.defs().items():
                if x.local_ty(l) != "bool":
                    continue
                blocks = [d[1] for d in ds if d[0] == "assign" and d[3]["rv"] == "use" and d[3]["op"].get("k") == "const"]
                if len(blocks) >= 2 and any(x.dominates(bk, h) and bk != h for bk in blocks) and \
                        any(x.dominates(h, bk) and (bk in body or any(p_ in body for p_ in x.pred(bk))) for bk in blocks):
                    flags.add(l)
            # the emission must come after the loop (not inside it) and be controlled by one of its flags
            if pc.bb in body:
                why = "rows are emitted inside the comparison loop, before every shared variable was compared"
                continue
            conds = G.conditions(x, pc.bb)
            controlled = False
            for c in conds:
                if c["kind"] == "other" and c.get("local") in flags and c.get("truth") is True:
                    controlled = True
                if c["kind"] == "call" and c["call"].name() == "all" and c["truth"] is True:
                    controlled = True
            if controlled:
                ok = True
            else:
                why = "the emission is not controlled by the outcome of the comparison loop"
        # alternative shape: iterator `.all(|(var, val)| other.get(var).map_or(true, |v| v == val))`
        if not ok:
            for c in x.calls():
                if c.name() == "all" and any(cd["kind"] == "call" and cd["call"] is c and cd["truth"] is True for cd in G.conditions(x, pc.bb)):
                    from c19 import closure_family_calls
                    key, inner = closure_family_calls(prog, x, c.args[1]) if len(c.args) > 1 else (None, [])
                    names = [ic.name() for xx, ic in inner]
                    if "get" in names and ("eq" in names or "ne" in names):
                        ok = True
        R.ob("C11-R3", "compatible-before-merge", "two rows are merged only after all their shared variables were compared", ok, where=x.where(pc.ln),
             detail=None if ok else why + " — rows that disagree on a shared variable are merged and one window's value overwrites the other's")


def r4(R):
    """no operand of the multi-window join is bypassed: joining with an empty relation yields the empty relation"""
    from lib import guards as G
    from lib import pipeline as P
    prog = R.prog
    R.rule("C11-R4", "no join bypass: every window's result set is joined in (no iteration of the fold skips the join), the static "
                     "bindings are joined whenever a static plan exists, and natural_join has no shortcut that returns one operand "
                     "unchanged - an empty operand makes the result empty (a solution must be an answer of EVERY block)")
    nj = R.body("C11-R4", "rsp_engine::natural_join", crate="kolibrie")
    jw = R.body("C11-R4", "rsp_engine::join_window_results", crate="kolibrie")
    em = R.body("C11-R4", "rsp_engine::emit_results", crate="kolibrie")
    if nj is not None:
        # every return of natural_join is either the accumulated result vector or a fresh empty vector
        bad = []
        acc = set()
        for c in nj.calls():
            if c.name() in ("push", "extend") and c.args:
                acc.add(nj.alias_root(c.args[0]))
        for d in nj.defs().get(0, []):
            if d[0] == "call":
                if d[2].name() not in ("new", "with_capacity", "default"):
                    bad.append((d[2].name(), d[2].ln))
            elif d[0] == "assign":
                rv = d[3]
                src = F.op_place(rv["op"]) if rv["rv"] == "use" else None
                if src is None:
                    bad.append(("rvalue", None))
                    continue
                root = nj.alias_root(rv["op"])
                if root in acc:
                    continue
                dd = nj.single_def(root) if root is not None else None
                if dd and dd[0] == "call" and dd[2].name() in ("new", "with_capacity", "default") and not [
                        c for c in nj.calls() if c.name() in ("push", "extend", "append", "extend_from_slice") and c.args and nj.alias_root(c.args[0]) == root]:
                    continue
                bad.append((nj.local_name(root) or "_%s" % root, None))
        R.ob("C11-R4", "no-shortcut", "natural_join returns only its own accumulated rows or an empty vector (other returns: %s)" % [b[0] for b in bad],
             not bad, where=nj.where(bad[0][1] if bad else None),
             detail=None if not bad else "returning an operand unchanged when the other one is empty emits solutions that are not answers of the "
             "empty block (window or static part)")
    if jw is not None:
        calls = [c for c in jw.calls() if nj is not None and c.key == nj.key]
        # iterator form: values.into_iter().reduce(|acc, w| natural_join(&acc, &w))
        red_ok = False
        for rc in jw.calls():
            if rc.name() in ("reduce", "fold") and len(rc.args) >= 2:
                from c19 import closure_family_calls
                key, inner = closure_family_calls(prog, jw, rc.args[-1])
                cl = prog.bodies.get(key) if key else None
                if cl is not None and nj is not None:
                    njc = [ic for ic in cl.calls() if ic.key == nj.key]
                    names, roots = P.flat(P.tree(jw, rc.args[0]))
                    trunc = [n for n in names if n not in ("iter", "into_iter", "deref", "values", "into_values", "cloned", "collect", "drain")]
                    # the closure's verdict is the join of its accumulator and its item, on every path
                    d0 = cl.defs().get(0, [])
                    direct = len(njc) == 1 and len(d0) == 1 and d0[0][0] == "call" and d0[0][2] is njc[0]
                    if direct and not trunc:
                        red_ok = True
                        R.ob("C11-R4", "fold-reduce", "join_window_results reduces every window result set with natural_join (pipeline %s)" % names, True, where=jw.where(rc.ln))
        if red_ok and not calls:
            calls = []
        R.ob("C11-R4", "fold", "join_window_results folds the window results with natural_join (found %d call%s)" % (len(calls), ", reduce form" if red_ok else ""),
             len(calls) >= 1 or red_ok, where=jw.where())
        for c in calls:
            drv = P.loop_driver(jw, c.bb)
            if drv is None or drv[2] is None:
                R.ob("C11-R4", "fold-loop", "the fold runs in a loop over the window result sets", False, where=jw.where(c.ln))
                continue
            h, blocks, t = drv
            names, roots = P.flat(t)
            trunc = [n for n in names if n not in ("iter", "into_iter", "deref", "drain", "iter_mut")]
            R.ob("C11-R4", "fold-all", "the fold visits every remaining window result set (pipeline %s)" % names, not trunc, where=jw.where(c.ln))
            # within an iteration the join cannot be skipped: from the loop body entry every path back to the header passes the join
            skip = h in jw.reach_from(_body_entries(jw, h, blocks), avoid={c.bb}) if True else False
            R.ob("C11-R4", "fold-no-skip", "no iteration of the fold skips the join", not skip, where=jw.where(c.ln),
                 detail=None if not skip else "a window whose result set is skipped (e.g. because it is empty) no longer constrains the solutions")
            # the accumulator is replaced by the join's result
            okacc = False
            left = _through(jw, c.args[0])
            for bb, i, pl, rv, st in jw.assigns():
                if bb in blocks and not pl["p"] and rv["rv"] == "use" and jw.alias_root(rv["op"]) == c.dest["l"] and left == pl["l"]:
                    okacc = True
            if not okacc and left is not None and left == c.dest["l"]:
                okacc = True
            R.ob("C11-R4", "fold-acc", "the running join is the left operand and receives the result", okacc, where=jw.where(c.ln))
    if em is not None and nj is not None:
        calls = [c for c in em.calls() if c.key == nj.key]
        R.ob("C11-R4", "static-join", "emit_results joins the static bindings with natural_join (found %d call)" % len(calls), len(calls) == 1, where=em.where())
        for c in calls:
            extra = []
            for cd in G.conditions(em, c.bb):
                if cd["kind"] == "variant":
                    continue            # `if let Some(plan) = static_data_plan`
                extra.append(cd["kind"] + (":" + cd["call"].name() if cd["kind"] == "call" else ""))
            R.ob("C11-R4", "static-unconditional", "whenever a static plan exists its bindings are joined, under no further condition", not extra,
                 where=em.where(c.ln), detail=None if not extra else "further condition(s) %s: when the static part has no answer the window "
                 "solutions are emitted although they do not join with any static answer" % extra)


def _body_entries(b, h, blocks):
    """successors of the loop's `next()` test that stay in the loop (start of one iteration's body)"""
    out = []
    for c in b.calls():
        if c.name() == "next" and c.bb in blocks:
            # the switch on the Option follows
            for s in b.succ(c.bb):
                for s2 in b.succ(s):
                    if s2 in blocks and b.blocks[s]["term"]["t"] == "switch":
                        out.append(s2)
    return out or [s for s in b.succ(h) if s in blocks]


def _through(b, op, depth=0):
    """the named local an operand refers to, looking through borrows and deref/as_slice style calls"""
    if depth > 8:
        return None
    o = b.origin(op, stop_named=True)
    if o[0] == "place":
        return o[1]["l"]
    if o[0] == "call" and o[1].name() in ("deref", "as_slice", "as_ref", "borrow", "as_mut", "deref_mut") and o[1].args:
        return _through(b, o[1].args[0], depth + 1)
    return None


def r5(R):
    """events are routed to windows by comparing whole stream identifiers"""
    prog = R.prog
    R.rule("C11-R5", "stream routing is by the whole identifier: the values compared when an event is routed to a window are normal forms of "
                     "the complete stream IRI (delimiters stripped); no function on that path takes a positional part of the IRI "
                     "(last path segment, fragment, prefix up to a separator) - two different streams must never share a routing key")
    PROJ = {"rfind", "find", "rsplit", "split", "rsplit_once", "split_once", "rsplitn", "splitn", "split_terminator", "rsplit_terminator",
            "split_at", "last", "nth", "rev", "split_off", "truncate", "index", "get", "char_indices", "rmatch_indices", "match_indices",
            "file_name", "path_segments", "fragment"}
    n = 0
    for nm in ("add_to_stream", "add_probabilistic_to_stream"):
        b = R.body("C11-R5", "RSPEngine::%s" % nm, crate="kolibrie")
        if b is None:
            continue
        R.saw(b)
        # routing comparisons: eq/ne between two Strings / strs, inside the loop over window_configs
        cmps = []
        for x in prog.family(b.key):
            for c in x.calls():
                if c.name() in ("eq", "ne") and len(c.args) == 2:
                    tys = [x.local_ty(F.op_place(a)["l"]) if F.op_place(a) else "" for a in c.args]
                    if all("String" in t or "str" in t for t in tys):
                        cmps.append((x, c))
        R.ob("C11-R5", "compares:" + nm, "%s decides routing by comparing stream identifiers (found %d comparison)" % (nm, len(cmps)), len(cmps) >= 1, where=b.where())
        # functions that produce the compared values
        producers = set()
        for x, c in cmps:
            for a in c.args:
                _producers(prog, x, a, producers)
        producers = {k for k in producers if k in prog.bodies and prog.bodies[k].crate in ("kolibrie", "shared")}
        R.ob("C11-R5", "normaliser:" + nm, "the compared values come from a normalising function (found %s)" % sorted(prog.bodies[k].name for k in producers),
             len(producers) >= 1, where=b.where())
        # close under kolibrie callees
        scope = set()
        work = list(producers)
        while work:
            k = work.pop()
            if k in scope:
                continue
            scope.add(k)
            for x in prog.family(k):
                for c in x.calls():
                    if c.key in prog.bodies and prog.bodies[c.key].crate in ("kolibrie", "shared") and c.key not in scope:
                        work.append(c.key)
        for k in sorted(scope):
            for x in prog.family(k):
                n += 1
                bad = sorted({c.name() for c in x.calls() if c.name() in PROJ})
                R.ob("C11-R5", "whole:%s:%s" % (nm, x.short), "%s (routing key of %s) uses the whole identifier (positional operations: %s)" % (x.short, nm, bad),
                     not bad, where=x.where(),
                     detail=None if not bad else "a key made of a part of the IRI (e.g. the text after the last `/` or `#`) is shared by different "
                     "streams: events of one stream are inserted into the window registered on another")
    R.floor("C11-R5", "routing-key bodies", n, 2)


def _producers(prog, b, op, out, depth=0):
    if depth > 10:
        return
    o = b.origin(op, stop_named=False)
    if o[0] == "call":
        c = o[1]
        if c.key in prog.bodies:
            out.add(c.key)
        elif c.args and c.name() in ("deref", "as_str", "borrow", "as_ref", "clone", "to_string", "to_owned", "into"):
            _producers(prog, b, c.args[0], out, depth + 1)
    elif o[0] == "place":
        for d in b.defs().get(o[1]["l"], []):
            if d[0] == "call":
                c = d[2]
                if c.key in prog.bodies:
                    out.add(c.key)
                elif c.args and c.name() in ("deref", "as_str", "borrow", "as_ref", "clone", "to_string", "to_owned", "into"):
                    _producers(prog, b, c.args[0], out, depth + 1)
            elif d[0] == "assign":
                for p2, k2 in F.rv_places(d[3]):
                    _producers(prog, b, {"k": "copy", "pl": p2}, out, depth + 1)


def r6(R):
    """per-window bookkeeping is keyed by the result's own window"""
    from lib import pipeline as P
    prog = R.prog
    R.rule("C11-R6", "per-window bookkeeping is keyed by the window the data came from: wherever the coordinator (or the single-thread "
                     "collector) files the results / raw content of a received WindowResult into a per-window map, the key is that "
                     "same WindowResult's window_iri - never the IRI of another result")
    WR = "kolibrie::rsp_engine::WindowResult"
    n = 0
    for b in sorted(prog.bodies.values(), key=lambda x: x.key):
        if b.crate != "kolibrie" or not b.file.endswith("rsp_engine.rs") or "::tests::" in b.key:
            continue
        wr_locals = [i for i, l in enumerate(b.locals) if l.get("ty", "").replace("&mut ", "").replace("&", "") == WR and l.get("name")]
        if not wr_locals:
            continue

        def wr_roots(op):
            pl = F.op_place(op)
            if pl is None:
                return set()
            out = set()
            seen = set()
            work = [pl["l"]]
            while work:
                l = work.pop()
                if l in seen:
                    continue
                seen.add(l)
                if l in wr_locals:
                    out.add(l)
                    continue
                for d in b.defs().get(l, []):
                    if d[0] in ("assign", "partial"):
                        for p2, k2 in F.rv_places(d[3]):
                            work.append(p2["l"])
                    elif d[0] in ("call", "partial_call") and d[2].name() in ("clone", "deref", "to_string", "to_owned", "into", "as_str", "borrow", "as_ref"):
                        for a in d[2].args:
                            p2 = F.op_place(a)
                            if p2 is not None:
                                work.append(p2["l"])
            return out
        for c in b.calls():
            if c.name() != "insert" or len(c.args) != 3:
                continue
            vroots = wr_roots(c.args[2])
            if not vroots:
                continue
            kroots = wr_roots(c.args[1])
            n += 1
            R.saw(b)
            ok = kroots == vroots and len(kroots) == 1
            R.ob("C11-R6", "keyed:%s:%d" % (b.short, n), "in %s the data of `%s` is filed under that result's own window_iri (key taken from %s)"
                 % (b.short, "/".join(sorted(b.local_name(l) for l in vroots)), sorted(b.local_name(l) for l in kroots) or "another value"), ok,
                 where=b.where(c.ln), detail=None if ok else "one window's reported content is stored as another window's content: that window's block is "
                 "then evaluated over items of a foreign stream")
    R.floor("C11-R6", "per-window insertions of received results", n, 4)


def r7(R):
    """every window declaration is paired with its WINDOW block by a search over the complete block list"""
    prog = R.prog
    R.rule("C11-R7", "a window's plan is its own WINDOW block: the lookup that pairs a FROM NAMED WINDOW declaration with the WINDOW block "
                     "of the WHERE clause searches the complete list of blocks by name for every declaration - the searched iterator is "
                     "created in the same loop iteration as the search (an iterator carried across declarations has already consumed "
                     "the blocks before the previous match), and declarations are not paired with blocks by position")
    CONSUMERS = {"find", "find_map", "position", "rposition", "any", "all", "nth", "skip_while", "take_while", "try_fold", "try_for_each"}
    n = 0
    for b in sorted(prog.bodies.values(), key=lambda x: x.key):
        if b.crate != "kolibrie" or "::tests::" in b.key or "WindowBlock" not in " ".join(l.get("ty", "") for l in b.locals):
            continue
        for c in b.calls():
            if not c.args:
                continue
            pl = F.op_place(c.args[0])
            if pl is None:
                continue
            ty = b.local_ty(pl["l"])
            if c.name() == "zip" and len(c.args) == 2:
                p2 = F.op_place(c.args[1])
                t2 = b.local_ty(p2["l"]) if p2 else ""
                both = ("WindowBlock" in ty and "WindowClause" in t2) or ("WindowClause" in ty and "WindowBlock" in t2)
                if both:
                    n += 1
                    R.ob("C11-R7", "by-name:" + b.short, "%s pairs window declarations with WINDOW blocks by name, not by position (zip of the two lists)" % b.short,
                         False, where=b.where(c.ln), detail="blocks written in another order than the declarations are evaluated by the wrong window")
                continue
            if c.name() not in CONSUMERS or "WindowBlock" not in ty or "Iter" not in ty:
                continue
            n += 1
            R.saw(b)
            loops = b.loops_containing(c.bb)
            ok = True
            why = "not in a loop"
            if loops:
                inner = min(loops, key=lambda hl: len(hl[1]))[1]
                root = b.alias_root(c.args[0])
                dl = root if isinstance(root, int) else pl["l"]
                dbbs = set()
                for d in b.defs().get(dl, []):
                    if d[0] != "arg":
                        dbbs.add(d[1])
                created_in = [bb for bb in dbbs if bb in inner]
                ok = bool(created_in)
                why = "iterator `%s` created in bb%s, search in the loop at bb%d" % (b.local_name(dl) or "_%d" % dl, sorted(dbbs), min(inner))
            R.ob("C11-R7", "fresh-search:" + b.short, "the WINDOW-block search (`%s`) in %s starts from the complete block list for each window (%s)"
                 % (c.name(), b.short, why), ok, where=b.where(c.ln),
                 detail=None if ok else "a short-circuiting search on an iterator that outlives the iteration continues after the previous match: a window "
                 "whose block was already passed gets no block and runs the catch-all plan over the shared store, so its block's pattern is never applied "
                 "to what that window reported")
    R.floor("C11-R7", "WINDOW-block lookups", n, 1)

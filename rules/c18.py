"""C18 — backward chaining: renaming apart depends on the goal; chaining consults every rule component."""
from lib import facts as F
from lib import cover
from lib.taint import Taint

RULE = "shared::rule::Rule"


def _binding_part(b, op, param, depth=0):
    """'key' / 'value' / 'pair' if the operand is (derived from) an entry of the map passed as parameter `param`"""
    if depth > 14:
        return None
    o = b.origin(op, stop_named=False)
    if o[0] == "call":
        c = o[1]
        if c.name() in ("clone", "deref", "borrow", "as_ref", "to_owned", "to_string", "cloned", "copied") and c.args:
            return _binding_part(b, c.args[0], param, depth + 1)
        if c.name() in ("keys", "into_keys") and c.args and b.alias_root(c.args[0]) == param:
            return "key"
        if c.name() in ("values", "into_values") and c.args and b.alias_root(c.args[0]) == param:
            return "value"
        if c.name() in ("iter", "into_iter", "iter_mut", "by_ref", "peekable", "rev") and c.args:
            if b.alias_root(c.args[0]) == param:
                return "pair"
            return _binding_part(b, c.args[0], param, depth + 1)
        if c.name() == "next" and c.args:
            return _binding_part(b, c.args[0], param, depth + 1)
        return None
    if o[0] != "place":
        return None
    pl = o[1]
    idx = [e.get("i") for e in pl["p"] if e["k"] == "field"]
    root = pl["l"]
    if root == param and not idx:
        return "pair"
    d = b.single_def(root)
    src = None
    if d and d[0] == "call":
        src = _binding_part(b, {"k": "copy", "pl": {"l": root, "p": [], "t": ""}}, param, depth + 1) if d[2].name() != "next" else (
            _binding_part(b, d[2].args[0], param, depth + 1) if d[2].args else None)
    elif d and d[0] == "assign" and d[3]["rv"] in ("use", "ref"):
        inner = d[3].get("op") or {"k": "copy", "pl": d[3]["pl"]}
        src = _binding_part(b, inner, param, depth + 1)
    if src == "pair" and len(idx) >= 2:
        return "key" if idx[-1] == 0 else "value"
    if src in ("key", "value"):
        return src
    return src


def run(R):
    prog = R.prog
    R.rule("C18-R1", "renaming apart depends on the goal: the generator of fresh rule-variable names receives data derived "
                     "from the goal pattern and from the current bindings (so it can avoid names occurring there)")
    R.rule("C18-R2", "component coverage: backward chaining consults premise, conclusion, filters and negative_premise of a rule")
    helper = R.body("C18-R1", "Reasoner::backward_chaining_helper", crate="datalog")
    ren = R.body("C18-R1", "backward_chaining::rename_rule_variables", crate="datalog")
    if helper is None or ren is None:
        return
    # ---- R1
    T = Taint(prog, helper)
    T.seed(helper, 2, "goal")
    T.seed(helper, 3, "bindings")
    T.run()
    calls = [c for c in helper.calls() if c.key == ren.key]
    R.floor("C18-R1", "renaming calls in the chaining helper", len(calls), 1)
    for n, c in enumerate(calls):
        labels = set()
        for a in c.args:
            labels |= T.op_taint(helper, a)
        ok = "goal" in labels and "bindings" in labels
        R.ob("C18-R1", "fresh-depends-on-goal", "the renaming call receives data derived from the goal and the bindings "
             "(receives: %s)" % sorted(labels), ok, where=helper.where(c.ln),
             detail=None if ok else "generated names are a function of a counter only: a goal that already uses such a name is captured")
    # what the avoided set is built from: the goal's variables, the bound names AND the variables inside the bound values
    # (head unification binds rule variable -> goal variable, so below depth 0 the caller's unbound variables live in values only)
    for n, c in enumerate(calls):
        if len(c.args) < 3:
            continue
        rl = helper.alias_root(c.args[2])
        parts = set()
        feeders = 0
        for x in helper.calls():
            if x is c or not x.args:
                continue
            roots = [helper.alias_root(a) for a in x.args]
            if rl not in roots:
                continue
            feeders += 1
            for a in x.args:
                if helper.alias_root(a) == rl:
                    continue
                part = _binding_part(helper, a, 3)
                if part:
                    parts.add(part)
        ok = "value" in parts and "key" in parts
        R.ob("C18-R1", "avoids-binding-values", "the names to avoid include the bound names and the variables inside the bound values "
             "(fed from binding %s; %d feeding calls)" % (sorted(parts), feeders), ok, where=helper.where(c.ln),
             detail=None if ok else "a caller's still-unbound goal variable that occurs only inside a binding value can be handed out "
             "as a fresh name; solving the inner premise then binds it and entailed answers are lost")
    # inside the generator: every freshly generated name is checked against the avoided names before use
    fam = [prog.bodies[k] for k in prog.reachable([ren.key]) if k in prog.bodies and prog.bodies[k].crate == "datalog"]
    gens = []
    for x in fam:
        for c in x.calls():
            if c.name() in ("format", "to_string") or (c.pretty or "").endswith("fmt::format"):
                gens.append((x, c))
    R.ob("C18-R1", "generator-found", "the fresh-name generator builds names with format!", bool(gens), where=ren.where())
    if ren.nargs >= 3:
        # the extra parameter(s) must reach a membership test inside the generator
        def follow(c):
            b2 = prog.bodies.get(c.key)
            return b2 if b2 is not None and b2.crate == "datalog" else None
        T2 = Taint(prog, ren, follow_calls=follow)
        for i in range(3, ren.nargs + 1):
            T2.seed(ren, i, "avoid")
        T2.run()
        checks = []
        for x in fam:
            for c in x.calls():
                if c.name() in ("contains", "contains_key", "get", "any") and c.args and "avoid" in T2.op_taint(x, c.args[0]):
                    # the outcome must control a branch
                    used = any(t["t"] == "switch" and F.op_local(t["discr"]) is not None and
                               x.alias_root(t["discr"]) in (c.dest["l"],) for bb, t in x.terms())
                    if not used:
                        for bb, t in x.terms():
                            if t["t"] == "switch":
                                dl = F.op_local(t["discr"])
                                d = x.single_def(dl) if dl is not None else None
                                if d and d[0] == "assign" and d[3]["rv"] in ("use", "unop", "discriminant"):
                                    src = d[3].get("op") or d[3].get("a") or {"k": "copy", "pl": d[3].get("pl")}
                                    pl = F.op_place(src) if src.get("pl") else None
                                    if pl is not None and pl["l"] == c.dest["l"]:
                                        used = True
                    if used:
                        checks.append((x, c))
        R.ob("C18-R1", "generator-checks", "the generator tests candidate names against the names to avoid", bool(checks), where=ren.where(),
             detail=None if checks else "the names to avoid are passed in but never tested")

    # ---- R2
    got = cover.consulted_fields(prog, helper, RULE)
    for f in ("premise", "conclusion", "filters", "negative_premise"):
        ok = f in got
        R.ob("C18-R2", "cover:backward_chaining_helper:%s" % f, "backward chaining consults Rule.%s" % f, ok, where=helper.where(),
             detail=None if ok else "answers outside the least model are returned for rules using this component")

"""C18 — backward chaining: renaming apart depends on the goal; chaining consults every rule component."""
from lib import facts as F
from lib import cover
from lib.taint import Taint

RULE = "shared::rule::Rule"


def run(R):
    prog = R.prog
    R.rule("C18-R1", "renaming apart depends on the goal: the generator of fresh rule-variable names receives data derived "
                     "from the goal pattern and from the current bindings (so it can avoid names occurring there)")
    R.rule("C18-R2", "component coverage: backward chaining consults premise, conclusion, filters and negative_premise of a rule")
    helper = R.body("C18-R1", "Reasoner::backward_chaining_helper", crate="datalog")
    ren = R.body("C18-R1", "backward_chaining::rename_rule_variables", crate="datalog")
    if helper is None or ren is None:
        return
    # ---- R1
    T = Taint(prog, helper)
    T.seed(helper, 2, "goal")
    T.seed(helper, 3, "bindings")
    T.run()
    calls = [c for c in helper.calls() if c.key == ren.key]
    R.floor("C18-R1", "renaming calls in the chaining helper", len(calls), 1)
    for n, c in enumerate(calls):
        labels = set()
        for a in c.args:
            labels |= T.op_taint(helper, a)
        ok = "goal" in labels and "bindings" in labels
        R.ob("C18-R1", "fresh-depends-on-goal", "the renaming call receives data derived from the goal and the bindings "
             "(receives: %s)" % sorted(labels), ok, where=helper.where(c.ln),
             detail=None if ok else "generated names are a function of a counter only: a goal that already uses such a name is captured")
    # inside the generator: every freshly generated name is checked against the avoided names before use
    fam = [prog.bodies[k] for k in prog.reachable([ren.key]) if k in prog.bodies and prog.bodies[k].crate == "datalog"]
    gens = []
    for x in fam:
        for c in x.calls():
            if c.name() in ("format", "to_string") or (c.pretty or "").endswith("fmt::format"):
                gens.append((x, c))
    R.ob("C18-R1", "generator-found", "the fresh-name generator builds names with format!", bool(gens), where=ren.where())
    if ren.nargs >= 3:
        # the extra parameter(s) must reach a membership test inside the generator
        def follow(c):
            b2 = prog.bodies.get(c.key)
            return b2 if b2 is not None and b2.crate == "datalog" else None
        T2 = Taint(prog, ren, follow_calls=follow)
        for i in range(3, ren.nargs + 1):
            T2.seed(ren, i, "avoid")
        T2.run()
        checks = []
        for x in fam:
            for c in x.calls():
                if c.name() in ("contains", "contains_key", "get", "any") and c.args and "avoid" in T2.op_taint(x, c.args[0]):
                    # the outcome must control a branch
                    used = any(t["t"] == "switch" and F.op_local(t["discr"]) is not None and
                               x.alias_root(t["discr"]) in (c.dest["l"],) for bb, t in x.terms())
                    if not used:
                        for bb, t in x.terms():
                            if t["t"] == "switch":
                                dl = F.op_local(t["discr"])
                                d = x.single_def(dl) if dl is not None else None
                                if d and d[0] == "assign" and d[3]["rv"] in ("use", "unop", "discriminant"):
                                    src = d[3].get("op") or d[3].get("a") or {"k": "copy", "pl": d[3].get("pl")}
                                    pl = F.op_place(src) if src.get("pl") else None
                                    if pl is not None and pl["l"] == c.dest["l"]:
                                        used = True
                    if used:
                        checks.append((x, c))
        R.ob("C18-R1", "generator-checks", "the generator tests candidate names against the names to avoid", bool(checks), where=ren.where(),
             detail=None if checks else "the names to avoid are passed in but never tested")

    # ---- R2
    got = cover.consulted_fields(prog, helper, RULE)
    for f in ("premise", "conclusion", "filters", "negative_premise"):
        ok = f in got
        R.ob("C18-R2", "cover:backward_chaining_helper:%s" % f, "backward chaining consults Rule.%s" % f, ok, where=helper.where(),
             detail=None if ok else "answers outside the least model are returned for rules using this component")

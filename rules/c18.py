"""C18 — backward chaining: renaming apart depends on the goal; chaining consults every rule component."""
from lib import facts as F
from lib import guards as G
from lib import cover
from lib.taint import Taint

RULE = "shared::rule::Rule"


def _binding_part(b, op, param, depth=0):
    """'key' / 'value' / 'pair' if the operand is (derived from) an entry of the map passed as parameter `param`"""
    if depth > 14:
        return None
    o = b.origin(op, stop_named=False)
    if o[0] == "call":
        c = o[1]
        if c.name() in ("clone", "deref", "borrow", "as_ref", "to_owned", "to_string", "cloned", "copied") and c.args:
            return _binding_part(b, c.args[0], param, depth + 1)
        if c.name() in ("keys", "into_keys") and c.args and b.alias_root(c.args[0]) == param:
            return "key"
        if c.name() in ("values", "into_values") and c.args and b.alias_root(c.args[0]) == param:
            return "value"
        if c.name() in ("iter", "into_iter", "iter_mut", "by_ref", "peekable", "rev") and c.args:
            if b.alias_root(c.args[0]) == param:
                return "pair"
            return _binding_part(b, c.args[0], param, depth + 1)
        if c.name() == "next" and c.args:
            return _binding_part(b, c.args[0], param, depth + 1)
        return None
    if o[0] != "place":
        return None
    pl = o[1]
    idx = [e.get("i") for e in pl["p"] if e["k"] == "field"]
    root = pl["l"]
    if root == param and not idx:
        return "pair"
    d = b.single_def(root)
    src = None
    if d and d[0] == "call":
        src = _binding_part(b, {"k": "copy", "pl": {"l": root, "p": [], "t": ""}}, param, depth + 1) if d[2].name() != "next" else (
            _binding_part(b, d[2].args[0], param, depth + 1) if d[2].args else None)
    elif d and d[0] == "assign" and d[3]["rv"] in ("use", "ref"):
        inner = d[3].get("op") or {"k": "copy", "pl": d[3]["pl"]}
        src = _binding_part(b, inner, param, depth + 1)
    if src == "pair" and len(idx) >= 2:
        return "key" if idx[-1] == 0 else "value"
    if src in ("key", "value"):
        return src
    return src


def run(R):
    prog = R.prog
    R.rule("C18-R1", "renaming apart depends on the goal: the generator of fresh rule-variable names receives data derived "
                     "from the goal pattern and from the current bindings (so it can avoid names occurring there)")
    R.rule("C18-R2", "component coverage: backward chaining consults premise, conclusion, filters and negative_premise of a rule")
    R.rule("C18-R3", "one substitution per unification: unify_patterns unifies subject, predicate and object against the SAME growing "
                     "substitution (a clone of the caller's bindings) and returns exactly that substitution")
    R.rule("C18-R4", "bindings are resolved transitively: resolve_term follows variable-to-variable bindings to the end (it recurses "
                     "on the bound term), so unify_terms never re-binds an already bound variable")
    R.rule("C18-R5", "rule bodies are conjunctions: in the chaining helper the accumulated solutions are replaced by the solutions of "
                     "each premise in turn, under every accumulated binding, one level deeper; the premise loop is only left when the "
                     "premises are exhausted (or after the replacement), and only then are the solutions added to the answers")
    R.rule("C18-R6", "bindings are made by unification only: in the backward chainer a substitution (HashMap<String, Term>) is written "
                     "nowhere but in unify_terms, after both sides were resolved - a plain insert elsewhere binds a variable without "
                     "comparing it with the value it already has in the same pattern (`?X p ?X` would match `a p b`)")
    _r6(R)
    R.rule("C18-R7", "one fresh-name counter for the whole search: the counter from which rule variables are renamed is a `&mut` parameter of the "
                     "chaining helper, passed on unchanged to every recursive call and created once by the entry point - names generated in a "
                     "nested call can therefore never coincide with a still unbound variable of a rule being applied further up")
    _r7(R)
    helper = R.body("C18-R1", "Reasoner::backward_chaining_helper", crate="datalog")
    ren = R.body("C18-R1", "backward_chaining::rename_rule_variables", crate="datalog")
    if helper is None or ren is None:
        return
    # ---- R1
    T = Taint(prog, helper)
    T.seed(helper, 2, "goal")
    T.seed(helper, 3, "bindings")
    T.run()
    calls = [c for c in helper.calls() if c.key == ren.key]
    R.floor("C18-R1", "renaming calls in the chaining helper", len(calls), 1)
    for n, c in enumerate(calls):
        labels = set()
        for a in c.args:
            labels |= T.op_taint(helper, a)
        ok = "goal" in labels and "bindings" in labels
        R.ob("C18-R1", "fresh-depends-on-goal", "the renaming call receives data derived from the goal and the bindings "
             "(receives: %s)" % sorted(labels), ok, where=helper.where(c.ln),
             detail=None if ok else "generated names are a function of a counter only: a goal that already uses such a name is captured")
    # what the avoided set is built from: the goal's variables, the bound names AND the variables inside the bound values
    # (head unification binds rule variable -> goal variable, so below depth 0 the caller's unbound variables live in values only)
    for n, c in enumerate(calls):
        if len(c.args) < 3:
            continue
        rl = helper.alias_root(c.args[2])
        parts = set()
        feeders = 0
        for x in helper.calls():
            if x is c or not x.args:
                continue
            roots = [helper.alias_root(a) for a in x.args]
            if rl not in roots:
                continue
            feeders += 1
            for a in x.args:
                if helper.alias_root(a) == rl:
                    continue
                part = _binding_part(helper, a, 3)
                if part:
                    parts.add(part)
        ok = "value" in parts and "key" in parts
        R.ob("C18-R1", "avoids-binding-values", "the names to avoid include the bound names and the variables inside the bound values "
             "(fed from binding %s; %d feeding calls)" % (sorted(parts), feeders), ok, where=helper.where(c.ln),
             detail=None if ok else "a caller's still-unbound goal variable that occurs only inside a binding value can be handed out "
             "as a fresh name; solving the inner premise then binds it and entailed answers are lost")
    # inside the generator: every freshly generated name is checked against the avoided names before use
    fam = [prog.bodies[k] for k in prog.reachable([ren.key]) if k in prog.bodies and prog.bodies[k].crate == "datalog"]
    gens = []
    for x in fam:
        for c in x.calls():
            if c.name() in ("format", "to_string") or (c.pretty or "").endswith("fmt::format"):
                gens.append((x, c))
    R.ob("C18-R1", "generator-found", "the fresh-name generator builds names with format!", bool(gens), where=ren.where())
    if ren.nargs >= 3:
        # the extra parameter(s) must reach a membership test inside the generator
        def follow(c):
            b2 = prog.bodies.get(c.key)
            return b2 if b2 is not None and b2.crate == "datalog" else None
        T2 = Taint(prog, ren, follow_calls=follow)
        for i in range(3, ren.nargs + 1):
            T2.seed(ren, i, "avoid")
        T2.run()
        checks = []
        for x in fam:
            for c in x.calls():
                if c.name() in ("contains", "contains_key", "get", "any") and c.args and "avoid" in T2.op_taint(x, c.args[0]):
                    # the outcome must control a branch
                    used = any(t["t"] == "switch" and F.op_local(t["discr"]) is not None and
                               x.alias_root(t["discr"]) in (c.dest["l"],) for bb, t in x.terms())
                    if not used:
                        for bb, t in x.terms():
                            if t["t"] == "switch":
                                dl = F.op_local(t["discr"])
                                d = x.single_def(dl) if dl is not None else None
                                if d and d[0] == "assign" and d[3]["rv"] in ("use", "unop", "discriminant"):
                                    src = d[3].get("op") or d[3].get("a") or {"k": "copy", "pl": d[3].get("pl")}
                                    pl = F.op_place(src) if src.get("pl") else None
                                    if pl is not None and pl["l"] == c.dest["l"]:
                                        used = True
                    if used:
                        checks.append((x, c))
        R.ob("C18-R1", "generator-checks", "the generator tests candidate names against the names to avoid", bool(checks), where=ren.where(),
             detail=None if checks else "the names to avoid are passed in but never tested")

    # ---- R2
    got = cover.consulted_fields(prog, helper, RULE)
    for f in ("premise", "conclusion", "filters", "negative_premise"):
        ok = f in got
        R.ob("C18-R2", "cover:backward_chaining_helper:%s" % f, "backward chaining consults Rule.%s" % f, ok, where=helper.where(),
             detail=None if ok else "answers outside the least model are returned for rules using this component")

    r3_r4_r5(R, helper)


def r3_r4_r5(R, helper):
    from lib import pipeline as P
    prog = R.prog
    up = R.body("C18-R3", "backward_chaining::unify_patterns", crate="datalog")
    ut = R.body("C18-R3", "backward_chaining::unify_terms", crate="datalog")
    rt = R.body("C18-R4", "backward_chaining::resolve_term", crate="datalog")
    if up is not None and ut is not None:
        calls = [c for c in up.calls() if c.key == ut.key]
        R.ob("C18-R3", "three", "unify_patterns unifies the three positions (found %d unify_terms calls)" % len(calls), len(calls) == 3, where=up.where())
        roots = set()
        pos = set()
        for c in calls:
            roots.add(up.alias_root(c.args[2]))
            for a in c.args[:2]:
                oa = up.origin(a, stop_named=False)
                if oa[0] == "place":
                    pos |= {e.get("i") for e in oa[1]["p"] if e["k"] == "field"}
        one = len(roots) == 1 and None not in roots
        R.ob("C18-R3", "same-substitution", "all three unify_terms calls extend one substitution local", one, where=up.where(),
             detail=None if one else "a position unified against a separate copy does not see the bindings made by the other positions: "
             "`?x p ?x` then matches a fact with different subject and object")
        R.ob("C18-R3", "positions", "the three calls cover subject, predicate and object (tuple fields %s)" % sorted(x for x in pos if x is not None),
             {0, 1, 2} <= pos, where=up.where())
        if one:
            l = next(iter(roots))
            d = [x for x in up.defs().get(l, []) if x[0] == "call"]
            from_clone = len(d) == 1 and d[0][2].name() == "clone" and up.alias_root(d[0][2].args[0]) == 3
            R.ob("C18-R3", "starts-from-caller", "the substitution starts as a clone of the caller's bindings", from_clone, where=up.where())
            # returned in Some(..)
            ret = False
            for bb, i, pl, rv, st in up.assigns():
                if pl["l"] == 0 and rv["rv"] == "aggregate" and rv.get("variant") == "Some" and rv["ops"] and up.alias_root(rv["ops"][0]) == l:
                    ret = True
            R.ob("C18-R3", "returns-it", "unify_patterns returns that substitution", ret, where=up.where())
    if rt is not None:
        rec = [c for c in rt.calls() if c.key == rt.key]
        ok = False
        for c in rec:
            o = rt.origin(c.args[0], stop_named=False)
            # the argument is the payload of bindings.get(v)
            if o[0] == "place":
                d = rt.single_def(o[1]["l"])
                if d and d[0] == "call" and d[2].name() == "get":
                    ok = True
            elif o[0] == "call" and o[1].name() == "get":
                ok = True
        loops = bool(rt.loops())
        R.ob("C18-R4", "transitive", "resolve_term recurses (or loops) on the term a variable is bound to", ok or loops, where=rt.where(),
             detail=None if (ok or loops) else "a variable bound to a variable bound to a constant resolves to the middle variable; unification then "
             "overwrites that variable's binding and returns answers that are not entailed")
        if ut is not None:
            res = [c for c in ut.calls() if c.key == rt.key]
            R.ob("C18-R4", "both-resolved", "unify_terms resolves both terms before comparing them (found %d resolve_term calls)" % len(res), len(res) >= 2, where=ut.where())
    if helper is None:
        return
    # ---- R5: the premise loop
    rec = [c for c in helper.calls() if c.key == helper.key]
    R.ob("C18-R5", "recursion", "the chaining helper solves premises by calling itself (found %d call)" % len(rec), len(rec) >= 1, where=helper.where())
    # the cut: the first switch of the helper compares the depth parameter with a constant; on the cutting edge nothing is searched
    cut = None
    for bb, t in helper.terms():
        if t["t"] != "switch":
            continue
        for tgt, cd in G.edge_conditions(helper, bb):
            if cd.get("kind") != "cmp" or cd.get("truth") is not True:
                continue
            n = G.normalize_cmp(helper, cd)
            if n is None:
                continue
            op, xa, xb = n
            if F.op_place(xa) and helper.alias_root(xa) == 4 and F.const_int(xb) is not None:
                pass
            elif F.op_place(xb) and helper.alias_root(xb) == 4 and F.const_int(xa) is not None:
                op, xa, xb = G.SWAP[op], xb, xa
            else:
                continue
            # the cutting edge is the one from which no recursive call is reachable
            if not any(c.bb in helper.reach_from([tgt]) for c in rec):
                cut = (op, F.const_int(xb))
        if cut is not None:
            break
    roots = [y.const_value(c.args[3]) for y in prog.bodies.values() if y.crate == "datalog" and "::tests::" not in y.key and y.key != helper.key
             for c in y.calls() if c.key == helper.key and len(c.args) > 3]
    for c in rec:
        # depth + k or remaining - k
        o = helper.origin(c.args[3], stop_named=False)
        step = None
        rv = o[1] if o[0] == "rv" else None
        if o[0] == "place":
            d = helper.single_def(o[1]["l"])
            rv = d[3] if d and d[0] == "assign" else None
        if rv is not None and rv["rv"] == "binop" and (rv["op"].startswith("Add") or rv["op"].startswith("Sub")):
            ca, cb = F.const_int(rv["a"]), F.const_int(rv["b"])
            if rv["op"].startswith("Add"):
                other = rv["b"] if ca is not None else rv["a"]
                k = ca if ca is not None else cb
                if k is not None and k >= 1 and helper.alias_root(other) == 4:
                    step = k
            elif cb is not None and cb >= 1 and helper.alias_root(rv["a"]) == 4:
                step = -cb
        R.ob("C18-R5", "deeper", "a premise is solved one level further from the root: depth + k or remaining - k, k >= 1 (found step %s)" % step, step is not None,
             where=helper.where(c.ln), detail=None if step is not None else "without progress of the bound the search does not terminate on recursive rules")
        # how many nested rule applications the bound allows: not fewer than on the verified tree (MAX_DEPTH = 10 counted from 0: eleven levels)
        levels = None
        if step in (1, -1) and cut is not None and len(roots) >= 1 and all(r is not None for r in roots):
            d0, (op, cv) = min(roots) if step == 1 else min(roots), cut
            if step == 1:
                d0 = max(roots)
                levels = {"Gt": cv - d0 + 1, "Ge": cv - d0, "Eq": cv - d0}.get(op)
            else:
                d0 = min(roots)
                levels = {"Eq": d0 - cv, "Le": d0 - cv, "Lt": d0 - cv + 1}.get(op)
        R.ob("C18-R5", "bound", "the helper follows derivations that nest up to 10 rule applications, the documented bound (levels allowed: %s; cut %s, root %s, step %s)"
             % (levels, cut, roots, step), levels is not None and levels >= 11, where=helper.where(c.ln),
             detail=None if (levels is not None and levels >= 11) else "answers whose derivation sits exactly on the bound are no longer returned")
        # loop nest: inner loop over the accumulated solutions, outer loop over the premises
        inner = P.loop_driver(helper, c.bb)
        if inner is None or inner[2] is None:
            R.ob("C18-R5", "nest", "the recursive call sits in a loop over the accumulated solutions", False, where=helper.where(c.ln))
            continue
        ih, iblocks, itree = inner
        acc_names, acc_roots = P.flat(itree)
        acc = [r for r in acc_roots if r["k"] == "root"]
        acc_l = acc[0]["local"] if len(acc) == 1 else None
        whole = not [n for n in acc_names if n not in ("iter", "into_iter", "deref", "clone", "cloned", "iter_mut")]
        R.ob("C18-R5", "every-binding", "the premise is solved under every accumulated binding (pipeline %s)" % acc_names, acc_l is not None and whole, where=helper.where(c.ln))
        # the binding passed is the inner loop's item; the premise passed is the outer loop's item
        outer = None
        for h2, b2 in helper.loops():
            if ih in b2 and h2 != ih and (outer is None or len(b2) < len(outer[1])):
                outer = (h2, b2)
        if outer is None or acc_l is None:
            R.ob("C18-R5", "premise-loop", "the solutions loop is nested in a loop over the rule's premises", False, where=helper.where(c.ln))
            continue
        oh, oblocks = outer
        odrv = P.driver_of(helper, oh, oblocks)
        onames, oroots = (P.flat(odrv[2]) if odrv and odrv[2] else ([], []))
        over_prem = any(r["k"] == "root" and "premise" in r["fields"] for r in oroots)
        whole_p = not [n for n in onames if n not in ("iter", "into_iter", "deref")]
        R.ob("C18-R5", "premise-loop", "the outer loop visits every premise of the renamed rule (pipeline %s over %s)" % (onames, [P.render(r) for r in oroots]),
             over_prem and whole_p, where=helper.where(c.ln))
        # replacement: acc = new inside the outer loop, after the inner loop; new collects the recursive results
        repl = []
        for bb, i, pl, rv, st in helper.assigns():
            if bb in oblocks and bb not in iblocks and not pl["p"] and helper.alias_root(pl["l"]) == helper.alias_root(acc_l) and rv["rv"] == "use" \
                    and F.op_place(rv["op"]) is not None:
                repl.append((bb, F.op_place(rv["op"])["l"], st.get("ln")))
        R.ob("C18-R5", "replaced", "after each premise the accumulated solutions are replaced by the new ones (found %d assignment)" % len(repl), len(repl) >= 1,
             where=helper.where(c.ln))
        for bb, src, ln in repl:
            fed = any(x.name() in ("extend", "push", "append") and x.bb in iblocks and helper.alias_root(x.args[0]) == helper.alias_root(src)
                      and c.dest["l"] in {helper.alias_root(a) for a in x.args[1:]} | {(F.op_place(a) or {"l": None})["l"] for a in x.args[1:]}
                      for x in helper.calls())
            R.ob("C18-R5", "collects", "the new solutions are exactly what the recursive calls returned", fed, where=helper.where(ln))
            # exits of the premise loop: only the exhausted-iterator exit, or exits after the replacement
            onext = odrv[0] if odrv else None
            bad = []
            for k in oblocks:
                for s2 in helper.succ(k):
                    if s2 in oblocks or helper.blocks[s2]["term"]["t"] == "unreachable":
                        continue
                    # exit edge k -> s2
                    from_inner = k in helper.reach_from([ih], avoid={oh})
                    if from_inner and not helper.dominates(bb, k) and k != bb:
                        bad.append(k)
            R.ob("C18-R5", "no-early-exit", "the premise loop is left only when the premises are exhausted or after the solutions were replaced", not bad,
                 where=helper.where(ln), detail=None if not bad else "leaving the loop with the previous premise's solutions returns bindings that do "
                 "not satisfy the remaining premises (answers that are not entailed)")
        # the answers receive the accumulated solutions after the loop
        ext = [x for x in helper.calls() if x.name() in ("extend", "append") and x.bb not in oblocks and len(x.args) >= 2
               and helper.alias_root(x.args[1]) == helper.alias_root(acc_l)]
        R.ob("C18-R5", "answers", "the solutions of the complete body are added to the answers after the premise loop", len(ext) >= 1, where=helper.where(c.ln))


def _r6(R):
    prog = R.prog
    SUB = "HashMap<alloc::string::String, shared::terms::Term"
    ut = prog.one("backward_chaining::unify_terms", crate="datalog")
    writers = {}
    for b in prog.bodies.values():
        if b.crate != "datalog" or "backward_chaining" not in b.file or "::tests::" in b.key:
            continue
        for c in b.calls():
            if c.name() in ("insert", "entry", "extend", "remove", "retain", "get_mut", "or_insert", "or_insert_with") and c.args:
                pl = F.op_place(c.args[0])
                ty = b.local_ty(pl["l"]).replace("&mut ", "").replace("&", "") if pl is not None else ""
                if pl is not None and ty.startswith("std::collections::hash::map::" + SUB):
                    writers.setdefault(b.key, []).append(c)
    R.ob("C18-R6", "unify-writes", "unify_terms is where variables get bound (found %d writes there)" % len(writers.get(ut.key, []) if ut else []),
         ut is not None and len(writers.get(ut.key, [])) >= 1, where=ut.where() if ut else None)
    for k, cs in sorted(writers.items()):
        if ut is not None and k == ut.key:
            # inside unify_terms: every write is dominated by the two resolve_term calls
            res = [c for c in ut.calls() if c.name() == "resolve_term"]
            ok = len(res) >= 2 and all(all(ut.dominates(r.bb, c.bb) for r in res[:2]) for c in cs)
            R.ob("C18-R6", "resolved-first", "every binding made by unify_terms is made after both terms were resolved", ok, where=ut.where())
            continue
        b = prog.bodies[k]
        R.ob("C18-R6", "writer:" + b.short, "%s does not write a substitution itself (it calls unification)" % b.short, False, where=b.where(cs[0].ln),
             detail="a binding made with a plain insert is not compared with the binding the variable already has: a pattern that repeats a "
             "variable matches facts with different values in those positions, and answers that are not entailed are returned")


def _r7(R):
    prog = R.prog
    helper = prog.one("Reasoner::backward_chaining_helper", crate="datalog")
    ren = prog.one("backward_chaining::rename_rule_variables", crate="datalog")
    entry = prog.one("Reasoner::backward_chaining", crate="datalog")
    if helper is None or ren is None:
        return
    cparams = [i for i in range(1, helper.nargs + 1) if helper.local_ty(i).startswith("&mut") and "usize" in helper.local_ty(i)]
    R.ob("C18-R7", "threaded", "the chaining helper takes the fresh-name counter as a `&mut usize` parameter", len(cparams) == 1, where=helper.where(),
         detail=None if cparams else "a counter that restarts in every call hands the same names to nested rule applications")
    if len(cparams) != 1:
        return
    cp = cparams[0]
    for c in helper.calls():
        if c.key == ren.key:
            ok = helper.alias_root(c.args[1]) == cp
            R.ob("C18-R7", "rename-uses-it", "rename_rule_variables draws names from that counter", ok, where=helper.where(c.ln))
        if c.key == helper.key:
            ok = any(helper.alias_root(a) == cp for a in c.args)
            R.ob("C18-R7", "recursion-passes-it", "the recursive call passes the same counter on", ok, where=helper.where(c.ln))
    if entry is not None:
        calls = [c for c in entry.calls() if c.key == helper.key]
        R.ob("C18-R7", "created-once", "the entry point creates the counter once and hands it to the search", len(calls) == 1, where=entry.where())

"""C18 — backward chaining: renaming apart depends on the goal; chaining consults every rule component."""
from lib import facts as F
from lib import cover
from lib.taint import Taint

RULE = "shared::rule::Rule"


def run(R):
    prog = R.prog
    R.rule("C18-R1", "renaming apart depends on the goal: the generator of fresh rule-variable names receives data derived "
                     "from the goal pattern and from the current bindings (so it can avoid names occurring there)")
    R.rule("C18-R2", "component coverage: backward chaining consults premise, conclusion, filters and negative_premise of a rule")
    helper = R.body("C18-R1", "Reasoner::backward_chaining_helper", crate="datalog")
    ren = R.body("C18-R1", "backward_chaining::rename_rule_variables", crate="datalog")
    if helper is None or ren is None:
        return
    # ---- R1
    T = Taint(prog, helper)
    T.seed(helper, 2, "goal")
    T.seed(helper, 3, "bindings")
    T.run()
    calls = [c for c in helper.calls() if c.key == ren.key]
    R.floor("C18-R1", "renaming calls in the chaining helper", len(calls), 1)
    for n, c in enumerate(calls):
        labels = set()
        for a in c.args:
            labels |= T.op_taint(helper, a)
        ok = "goal" in labels and "bindings" in labels
        R.ob("C18-R1", "fresh-depends-on-goal", "the renaming call receives data derived from the goal and the bindings "
             "(receives: %s)" % sorted(labels), ok, where=helper.where(c.ln),
             detail=None if ok else "generated names are a function of a counter only: a goal that already uses such a name is captured")
    # inside the generator: every freshly generated name is checked against the avoided names before use
    fam = [prog.bodies[k] for k in prog.reachable([ren.key]) if k in prog.bodies and prog.bodies[k].crate == "datalog"]
    gens = []
    for x in fam:
        for c in x.calls():
            if c.name() in ("format", "to_string") or (c.pretty or "").endswith("fmt::format"):
                gens.append((x, c))
    R.ob("C18-R1", "generator-found", "the fresh-name generator builds names with format!", bool(gens), where=ren.where())
    if ren.nargs >= 3:
        # some parameter beyond (rule, counter) must be consulted by a membership test on the generating path
        checks = []
        for x in fam:
            for c in x.calls():
                if c.name() in ("contains", "contains_key", "get", "any", "iter"):
                    checks.append((x, c))
        R.ob("C18-R1", "generator-checks", "the generator tests candidate names against the names to avoid", bool(checks), where=ren.where())

    # ---- R2
    got = cover.consulted_fields(prog, helper, RULE)
    for f in ("premise", "conclusion", "filters", "negative_premise"):
        ok = f in got
        R.ob("C18-R2", "cover:backward_chaining_helper:%s" % f, "backward chaining consults Rule.%s" % f, ok, where=helper.where(),
             detail=None if ok else "answers outside the least model are returned for rules using this component")

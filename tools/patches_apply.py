#!/usr/bin/env python3
"""every kept mutant, benign twin and seeded change must still apply to /repo's HEAD (the thorough tier replays them)"""
import glob, subprocess, sys
bad = [p for p in sorted(glob.glob('/verif/selftest/C*/*.diff')) + sorted(glob.glob('/verif/seeded/C*/patch.diff'))
       if subprocess.run(['git', '-C', '/repo', 'apply', '--check', p], capture_output=True).returncode]
for p in bad:
    print("DOES NOT APPLY:", p)
print("%d patches checked, %d stale" % (len(glob.glob('/verif/selftest/C*/*.diff')) + len(glob.glob('/verif/seeded/C*/patch.diff')), len(bad)))
sys.exit(1 if bad else 0)

#!/usr/bin/env python3
"""debug helper: print a compact rendering of a body's MIR facts.  usage: tools/dumpmir.py <suffix> [facts-dir]"""
import sys, os
sys.path.insert(0, os.path.join(os.path.dirname(os.path.abspath(__file__)), '..', 'rules'))
from lib import facts as F
def opstr(o):
    if o.get('k') in ('copy','move'): return ('move ' if o['k']=='move' else '')+o['pl']['t']
    if o.get('k')=='const': return 'const '+str(o.get('d') or o.get('fn') or o.get('v'))+(' <%s>'%o['const_def'].rsplit('::',1)[-1] if 'const_def' in o else '')
    return str(o)[:60]
def rvstr(rv):
    k=rv['rv']
    if k=='use': return opstr(rv['op'])
    if k in('ref','rawptr'): return '&%s %s'%(rv.get('bk'),rv['pl']['t'])
    if k=='binop': return '%s(%s, %s)'%(rv['op'],opstr(rv['a']),opstr(rv['b']))
    if k=='unop': return '%s(%s)'%(rv['op'],opstr(rv['a']))
    if k=='cast': return '%s as %s [%s]'%(opstr(rv['op']),rv['ty'],rv['kind'][:30])
    if k=='discriminant': return 'discr(%s)'%rv['pl']['t']
    if k=='aggregate':
        nm = rv.get('adt','').rsplit('::',1)[-1]+'::'+rv.get('variant','') if rv.get('ak')=='adt' else rv.get('ak')+(':'+rv.get('closure','').rsplit('::',2)[-1] if rv.get('ak')=='closure' else '')
        return '%s{%s}'%(nm, ', '.join(('%s: '%f if rv.get('fields') else '')+opstr(o) for f,o in zip(rv.get('fields') or ['']*len(rv['ops']), rv['ops'])))
    return rv.get('dbg','?')[:80]
def dump(b):
    print('fn',b.key,'|',b.pretty,b.file,b.line,'nargs',b.nargs)
    for i,l in enumerate(b.locals):
        if l.get('name') or i<=b.nargs: print('   _%d: %s %s'%(i,l['ty'][:100],l.get('name','')))
    for blk in b.blocks:
        if blk.get('cleanup'): continue
        print(' bb%d:'%blk['bb'])
        for s in blk['st']:
            if s['s']=='assign': print('    %s = %s   // ln %s'%(s['pl']['t'],rvstr(s['rv']),s['ln']))
            else: print('    ',s['s'],s.get('dbg','')[:80])
        t=blk['term']; k=t['t']
        if k=='call': print('    %s = call %s(%s) -> bb%s   // ln %s'%(t['dest']['t'],t.get('callee_pretty') or opstr(t['func']),', '.join(opstr(a) for a in t['args']),t['target'],t['ln']))
        elif k=='switch': print('    switch %s %s otherwise bb%s'%(opstr(t['discr']),t['targets'],t['otherwise']))
        elif k=='assert': print('    assert(%s == %s) %s -> bb%s'%(opstr(t['cond']),t['expected'],t['kind'],t['target']))
        elif k=='drop': print('    drop %s -> bb%s'%(t['pl']['t'],t['target']))
        else: print('    ',k,t.get('target',''))
if __name__=='__main__':
    d=sys.argv[2] if len(sys.argv)>2 else os.path.join(os.path.dirname(os.path.abspath(__file__)),'..','.work','facts-q')
    p=F.load(d)
    for b in p.find(sys.argv[1]):
        dump(b)

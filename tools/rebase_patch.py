#!/usr/bin/env python3
"""development tool: re-create a patch whose context moved (after a `fix:` commit in /repo) by applying it with fuzz to a copy of the
files it touches and diffing again; the original of a seeded patch is kept as patch_at_<sha>.diff.  usage: tools/rebase_patch.py <sha> <patch>..."""
import os, subprocess, sys, tempfile, shutil
REPO = "/repo"


def rebase(old_sha, path):
    files = sorted({l[6:].strip() for l in open(path, errors="replace") if l.startswith("+++ b/")})
    tmp = tempfile.mkdtemp(prefix="kolibrie-rebase-")
    try:
        for f in files:
            for side in ("a", "b"):
                os.makedirs(os.path.dirname(os.path.join(tmp, side, f)), exist_ok=True)
                if os.path.exists(os.path.join(REPO, f)):
                    shutil.copy(os.path.join(REPO, f), os.path.join(tmp, side, f))
        r = subprocess.run(["patch", "-p1", "-F3", "--no-backup-if-mismatch", "-i", os.path.abspath(path)], cwd=os.path.join(tmp, "b"), capture_output=True, text=True)
        if r.returncode != 0 or "FAILED" in r.stdout:
            print("MANUAL", path, r.stdout.strip().splitlines()[-2:])
            return False
        d = subprocess.run(["git", "diff", "--no-index", "--binary", "a", "b"], cwd=tmp, capture_output=True).stdout
        out = []
        for line in d.split(b"\n"):
            if line.startswith(b"diff --git a/a/"):
                line = line.replace(b" a/a/", b" a/").replace(b" b/b/", b" b/")
            elif line.startswith(b"--- a/a/"):
                line = b"--- a/" + line[8:]
            elif line.startswith(b"+++ b/b/"):
                line = b"+++ b/" + line[8:]
            out.append(line)
        if "/seeded/" in path:
            keep = os.path.join(os.path.dirname(path), "patch_at_%s.diff" % old_sha)
            if not os.path.exists(keep):
                shutil.copy(path, keep)
        open(path, "wb").write(b"\n".join(out))
        print("rebased", path)
        return True
    finally:
        shutil.rmtree(tmp)


if __name__ == "__main__":
    ok = all([rebase(sys.argv[1], p) for p in sys.argv[2:]])
    sys.exit(0 if ok else 1)

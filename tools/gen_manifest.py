#!/usr/bin/env python3
"""Regenerate /verif/MANIFEST.json from the table below (kept in one place so it stays valid)."""
import json
import os

VERIF = os.path.dirname(os.path.dirname(os.path.abspath(__file__)))

CLAIMS = {
    "C04": ("DESIGN.md §4 C04",
            "Decides the structural half of the store's representation invariant on every path of the code: who may "
            "mutate the five index fields (role writer set, private fields), that the four quad indexes are touched in "
            "lock-step on every path, that the writer-defined key permutation of each index is the one used by the deleter, "
            "its helpers and every reader arm (abstract interpretation of map navigation, closures included), catalog "
            "independence, and that rebuild feeds both quads and graph identities. It does not decide abstract-set equality "
            "over operation histories.",
            "MIR abstract interpretation of nested-map navigation + writer-set/lock-step/dominance rules"),
    "C15": ("DESIGN.md §4 C15",
            "Decides, for all call sequences, the structural facts the bijection rests on: workspace-wide writer sets of "
            "the (public) dictionary and quoted-store fields, lock-step of the two maps with a pre-increment counter that is "
            "advanced on every inserting path and guarded against the quoted-id range, the start value of every fresh "
            "QuotedTripleStore, and (taint) that union passes every identifier of the other database through the "
            "re-encoder into a clone of self's dictionary. Bijectivity itself follows by induction that is not mechanised.",
            "MIR writer-set, dominance/guard and taint rules"),
    "C07": ("DESIGN.md §4 C07",
            "Decides the interruption-safety clause for every interruption point at once: caches are filled only with "
            "the completed result under the looked-up key, node allocation and unique-table registration form one "
            "straight-line region without a fallible step (hash-consed: lookup first, id = pre-push length), every budgeted "
            "twin calls the same manager operations and writes the same fields as its original, and no unbudgeted "
            "mutating operation is reachable from a budgeted one. Exactness, canonicity and model counts are not decided.",
            "MIR dominance/pairing, sibling (twin) skeleton comparison, call-graph closure"),
    "C05": ("DESIGN.md §4 C05",
            "Decides for every rule set at once that each evaluation strategy consults every semantic component of a rule "
            "(field-consultation closure over the call graph), covers every premise count and every conclusion (no silent "
            "default arm, no truncating adaptor), that the candidate-rule index is probed for the wildcard bucket it is "
            "written with, and that the fixpoint drivers keep known_facts / index / all_facts in lock-step and only stop "
            "on an empty round. Seven confirmed defects are listed as known findings. Least-fixpoint equality is not decided.",
            "MIR field-consultation closure (T-COVER), switch-arm analysis, lock-step paths, controlling conditions"),
    "C03": ("DESIGN.md §4 C03",
            "Decides every ordering/atomicity clause of the statement that is a shape of the update executor: deletions "
            "complete before insertions start (effect points of the lazy iterators), WHERE is evaluated exactly once and both "
            "templates read that one snapshot, nothing fallible follows a successful dataset-mutating call on the update "
            "path (three confirmed neural-materialisation sites are known findings), the applier cannot fail, template/plan "
            "building cannot reach a dataset mutator, blank-node maps are per solution, and the reported counts are the "
            "mutators' results. Equality with a step-by-step model over all histories is not decided.",
            "MIR dominance / reachability-after-success, call-graph purity, loop placement, def-use of counts"),
    "C18": ("DESIGN.md §4 C18",
            "Decides that the fresh-name generator of backward chaining receives the goal's and bindings' names and tests "
            "candidates against them (defect fixed), and that chaining consults every rule component (filters and negation "
            "are ignored: two known findings). Soundness of unification and depth-bounded completeness are not decided.",
            "MIR taint (inverted: must-depend), field-consultation closure"),
    "C19": ("DESIGN.md §4 C19",
            "Decides that admission to the repair list is two-sided (defect fixed), that answers are kept only under `all` "
            "over every repair but the seed with binding equality, and that every insertion of a derived fact is dominated "
            "by the false edge of the consistency test on (all facts + candidate). Enumeration of all maximal subsets is not decided.",
            "MIR dominance/controlling conditions, closure call structure"),
    "C09": ("DESIGN.md §4 C09",
            "Decides the trigger discipline and interval shape that are visible in code: every consumer notification in both "
            "ingest paths is controlled by the strict test event-time > app_time and the clock is advanced to that time on "
            "every such path; both paths assign content under exactly open <= t < close, select the reported window by "
            "maximal close, consult the report strategy, and replace the active windows only afterwards; the close strategy "
            "reports only when close <= t. Which windows `scope` opens (f64 arithmetic on width/slide) is not decided.",
            "MIR controlling conditions (T-GUARD), sibling comparison of normalised comparisons"),
    "C12": ("DESIGN.md §4 C12",
            "Decides the agreements that make incremental and from-scratch materialisation coincide at expiry instants: the "
            "translator and the incremental path use the same strict alive boundary (expiry > now) on event_time + width, "
            "renewal re-seeds exactly when the new expiry is later, carried expiries combine with max, both materialisers "
            "translate the same (sds, dict, now), and the expiry semiring is exactly (max, min, 0, +inf). Equality of the two "
            "fixpoints over all histories is not decided. Also decides the re-trigger discipline of the provenance round: a "
            "known fact whose tag improved is queued for the next delta unconditionally and the round reports a change.",
            "MIR comparison normal forms (T-GUARD), sibling agreement, exact-body checks of semiring operations, control dependence"),
    "C08": ("DESIGN.md §4 C08",
            "Decides that every Alert/NoAlert placed in a certified result is control-dependent on the threshold test of the "
            "very bound it is published with (probability, interval lower/upper), that from the failure edge of every "
            "budgeted step and from an unknown residual mass no certified result is reachable except through the success "
            "edge of the exact compilation, that swallowed failures only feed metrics, and that decision() is Indeterminate "
            "for the non-certified variants. Soundness of the bounds themselves (residual mass, WMC) is numeric and not decided.",
            "MIR control dependence on normalised comparisons, cut-edge reachability, taint of swallowed errors"),
    "C10": ("DESIGN.md §4 C10",
            "Decides the shape of the per-firing transaction on the shared store for every schedule: one lock acquisition "
            "covering evict, load, materialise and query (dominated by the acquisition, not reachable from the release), their "
            "order, completeness of the evict/load loops before materialisation, bookkeeping of everything loaded or derived "
            "for the next eviction, and that previous-firing state cannot delete current-firing content (defect fixed: the "
            "loader untracks). Also: the engine-level lock-nesting graph is acyclic with no blocking receive under a guard, "
            "and the stateful relation-to-stream arms replace their last-result memory with the current answer on every path. "
            "The R2S operators' set algebra and cross-mode sequence equality are not decided.",
            "MIR critical-section containment, T-ORDER reachability, T-PAIR within loop bodies, sibling impl checks by trait, "
            "lock-order graph with callee summaries"),
    "C11": ("DESIGN.md §4 C11",
            "Decides store ownership: the static store is written only by the static-data API, is never captured by a window "
            "processor, and the static plan runs only against it; the window store is loaded/evicted only by the window "
            "processor; and the store a window plan is executed against must be owned by that window - on the pinned tree all "
            "windows share one store (confirmed known finding; the external-bucket sibling is the conforming instance). Also "
            "decides that natural_join merges two rows only after comparing every shared variable. The "
            "synchronisation policies' emission schedule is not decided.",
            "MIR closure-capture provenance, who-may-call over trait methods, loop placement of store creation"),
    "C02": ("DESIGN.md §4 C02",
            "Decides the structural facts that make plan choice answer-neutral: the memo key writes every field of every plan / "
            "expression node and modifier tuple it takes apart (taint from each field to a formatting sink; derived Debug for "
            "whole values; explicit arm per variant), both scan strategies run one executor, the set-at-a-time joiners never "
            "build rows except through merge_rows (which checks shared variables), and cost estimates never flow into plan "
            "content. The unguarded hash/nested-loop candidates for input-sensitive right operands are two confirmed known "
            "findings. Equality of the three join algorithms' multisets for all inputs is not decided.",
            "MIR field-to-sink taint (key completeness), sibling arm comparison, forbidden-effect scan, cost taint"),
    "C01": ("DESIGN.md §4 C01",
            "Decides seven necessary conditions of `no construct of the fragment is lost or treated differently between parser, "
            "lowering, planner, executor and the two finalizers`: parser-emitted aggregate and comparison keys all have explicit "
            "reader arms (string tables from MIR), the three semantic walkers have no silent default arm, every executor arm "
            "consumes its input bindings on every path, scans carry the graph scope, both finalizers decide grouping from GROUP BY "
            "and aggregates (defect fixed) and apply modifiers in the same order, and plan memo keys are complete. Equality of the "
            "returned rows with the algebra's multiset is not decided.",
            "MIR string-table extraction, enum-dispatch arm analysis, must-use reachability, decider taint, shared memo-key rule"),
    "C13": ("DESIGN.md §4 C13",
            "Decides two necessary conditions for independence from prior content and chunking: identifiers read from one store "
            "never reach another store's insert API unless re-encoded or the stores provably share a dictionary (taint with store "
            "identities, owner resolution for bare indexes), and per-chunk workers of the parallel line loaders carry no state "
            "across lines except their output and handle no document-global directive. parse_n3 violates all three (confirmed "
            "known findings). Tokeniser correctness per format is not decided.",
            "MIR taint with store identities, loop-carried state analysis in closures"),
    "C17": ("DESIGN.md §4 C17",
            "Decides, over every call path, that no body that mutably projects the stored dataset_index is callable from the "
            "query-only entry points (context-sensitive cut for text already accepted by the SELECT-only parser), that the Update "
            "arm refuses before the database is handed to anything, and that the HTTP adapter only goes through the query entry. "
            "Two neural-materialisation sink calls are confirmed known findings. Clean failure: the certificate analysis of C16 is "
            "run from the three string entry points over the text-facing layer (parser, error rendering, request execution, plan "
            "lowering, filter types: 99 sites); it found and two `fix:` commits removed two panics reachable by plain request text.",
            "call-graph reachability with verified guarded cuts, role-defined sinks; MIR symbolic certificate analysis (T-CERT)"),
    "C14": ("DESIGN.md §4 C14",
            "Decides that in every text serializer a value written between double quotes is the result of the escaper (format "
            "template analysis on MIR), that the writer's escape table and the decoder's table are inverse on every escaped "
            "character (tables extracted from the char matches) and cover the characters that end a token or a line, and that "
            "every term cleaner used by a loader decodes literal bodies (defect fixed for N-Triples/Turtle). Round-trip equality "
            "for all Unicode strings is not decided.",
            "MIR format-template / def-use analysis, char-switch table extraction (inverse tables)"),
    "C16": ("DESIGN.md §4 C16, §9.2",
            "Decides totality structurally: every str slicing / offset operation, sequence index, unwrap/expect and arithmetic on "
            "input-parsed numbers reachable from the parser entry points is discharged by a char-boundary / order / non-emptiness "
            "prover over symbolic MIR expressions (guards, co-inductive loop variables, closures, parameter preconditions) or by "
            "an audited lemma bound to the exact expression, its variables' definitions and the fingerprint of the functions it "
            "relies on; every Ok of the top-level parsers returns a blank-skipped remainder tested empty; the unified grammar uses "
            "only the case-insensitive keyword helper and the comment-aware blank skipper. Two panics were fixed. Structural "
            "fidelity of the syntax tree (round-trip) is not decided.",
            "MIR symbolic certificate analysis (T-CERT) with audited lemma table, controlling conditions, token-helper discipline"),
}

CLAIMS["C06"] = ("DESIGN.md §9.7",
                 "Decides only the propagation discipline that every provenance mode relies on, for all programs at once: every matched "
                 "premise enters the conjunction (positive round and negative pass), every derivation of every conclusion is recorded "
                 "(first tag or update_disjunction, none dropped), improved tags are queued, reported and joined again, rules are split "
                 "into complementary strata with the positive fixpoint before the single negative pass, every negated atom is folded in "
                 "(negated tag if present, certainty if absent), every seed gets its own identifier of one enumeration, an absent tag "
                 "reads as one() and update_disjunction stores disjunction(old,new) iff not saturated. The numeric equality with the "
                 "possible-worlds sum (model counting, saturation, recursion depth) is NOT decided.",
                 "MIR iterator-pipeline completeness (T-PIPE), no-skip loop analysis, dominance, closure predicate polarity, def-use")

# second round: clauses added to existing claims (DESIGN.md §9.6)
EXTRA = {
    "C01": (" Also decides that duplicate elimination (merged default graph, both DISTINCTs) tests every item with a key covering the whole item, "
            "that UNION / VALUES / the lowering handle every branch, row, triple pattern and group member (filters at group end), and that the "
            "three walkers read every field of every variant.",
            ", dominance of the seen-set test"),
    "C02": (" Also decides that the executor's rayon workers range over their whole input (no hand-made batches) and that reordering is a "
            "permutation with a faithful rebuild of every node.", ", iterator-pipeline coverage, field-position agreement"),
    "C03": (" Also decides that every WHERE solution instantiates every template (no solution skipped or de-duplicated, every quad kept).",
            ", no-skip loop analysis"),
    "C04": (" Also decides that a delete which removes nothing performs no write (no graph identity created or resurrected).", ", controlling conditions of writes"),
    "C05": (" Also decides that match-or-bind on a binding row is the last write before the row is emitted, and that the rule join's rayon "
            "pipelines range over their whole input.", ", T-ORDER on row writes, iterator-pipeline coverage"),
    "C07": (" Also decides that wmc_gradient restores every perturbed weight on every path and that no floating-point division with an "
            "unguarded runtime divisor is reachable from wmc / wmc_gradient, and that budget exhaustion inside a budgeted operation never ends "
            "in an Ok return.", ", T-PAIR restore analysis, guarded-division scan over the call graph, failure-edge reachability"),
    "C09": (" Second round: also decides where the first opened interval closes (slide boundary at/after the event, origin t_0 = 0), that "
            "scope() never replaces an open window's container, and that the report strategies are conjunctive.", ", loop linear arithmetic (T-LIN)"),
    "C10": (" Second round: also decides that the multi-thread window worker hands every received content to the processor (one blocking "
            "receive, no coalescing).", ", worker-loop no-skip analysis"),
    "C14": (" Second round: also decides that the decoder recognises the closing quote in the same character scan that consumes escapes.",
            ", single-scanner switch analysis"),
    "C15": (" Second round: also decides that the recursive decoders carry no state that can veto a component (or restore it on every "
            "value-yielding path).", ", T-PAIR on visited-set state"),
    "C08": (" Second round: also decides that in every Result-returning helper the failure edge of a budgeted step never leads to an Ok return.",
            ", failure-edge reachability"),
    "C11": (" Also decides that events are routed to windows by comparing whole stream identifiers, and that no operand of the multi-window / static join is bypassed (an empty operand empties the result).", ", no-skip fold analysis"),
    "C12": (" Second round: renewed expiry wins when seeding tags, the conjunction ranges over every matched premise, queued improvements are "
            "consumed, static facts never expire and no component fact is dropped, component IRIs are matched longest first.", ", iterator-pipeline completeness (T-PIPE)"),
    "C13": (" Also decides that the parallel line loaders hand their workers a total partition of the document's lines, and that a scratch "
            "cache of term expansions is keyed on everything it depends on.", ", iterator-pipeline coverage, memo-key analysis"),
    "C16": (" Second round: the text matched by the case-insensitive keyword helper never reaches a returned tree, and no sub-parser payload "
            "is parsed and dropped (two audited exceptions).", ", component tracking + taint to the return value"),
    "C18": (" Second round: also decides one-substitution-per-unification, transitive resolution of bindings, and that rule bodies are solved "
            "as conjunctions (premise loop left only when exhausted or after replacing the solutions), and that substitutions are written only by "
            "unify_terms.", ", loop exit analysis, writer set of the substitution type"),
    "C19": (" Second round: violates_constraints is a disjunction over all constraints, and repair-aware materialisation reloads exactly the "
            "chosen repair into an emptied index.", ", iterator-pipeline completeness"),
}
for _pid, (_t, _k) in EXTRA.items():
    _ref, _text, _tech = CLAIMS[_pid]
    CLAIMS[_pid] = (_ref, _text + _t, _tech + _k)

# third round and later (DESIGN.md §9.8-9.10)
EXTRA2 = {
    "C01": (" Third round: match-or-bind in the scan layer, GRAPH ?g visits every visible named graph, both ORDER BY comparators are lexicographic over "
            "all keys, and the solution sequence is cut only by the finalizers or under a guard that consults order, distinct, grouping and projection.",
            ", lookup-before-bind dominance, early-cut guard analysis; last round: a scan whose graph variable is unbound consults the active graph (subquery inside "
            "GRAPH ?g, fixed), the FILTER evaluators are three-valued and never compare a non-number as a number (fixed), a floating-point sum is never "
            "formatted as it is (fixed), and the Filter arm is reported for evaluating conditions on rows that carry outer bindings (known finding)"),
    "C02": (" Third round: the star plan accounts for every pattern of its join group and the plan memo stores under a node's key only plans derived from that node.",
            ", flow-aware def-use of memo stores"),
    "C04": (" Third round: the across-named-graphs reader takes its graphs from the catalog or filters a visible set to named, existing graphs.", ""),
    "C05": (" Third round: the rule join's hash table keeps every partial binding and every bucket index is probed; a driver that runs the rules with "
            "negation in a pass of their own must feed its conclusions back (known finding: single pass, no stratification).", ", driver loop analysis"),
    "C07": (" Third round: only the canonicalising path may call the raw decision-node constructor, unique_d and compress.", ", who-may-call"),
    "C08": (" Third round: a seen-set that prunes proof-search states is keyed on the proof and the pending conjuncts.", ", memo-key completeness"),
    "C09": (" Third round: writer set of active_windows / app_time.", ", writer-set analysis"),
    "C11": (" Third round: data of a received window result is filed under that result's own window.", ""),
    "C12": (" Third round: every carried-over and every new fact is inserted into the reasoner's index.", ""),
    "C13": (" Third round: both term cleaners treat a literal's suffix alike (defect fixed) and the language-tag class accepts digits; no loader cuts lines at "
            "a plain search for `#`, every text loader reaches a literal decoder (two known findings in parse_n3), and the RDF/XML loaders emit a literal "
            "at the end of the property element from accumulated text and entity references (defect fixed).", ", sibling agreement, event-dispatch arm analysis"),
    "C14": (" Third round: the Turtle writer breaks lines only after a statement terminator (defect fixed), cleaned terms are never interpreted as surface "
            "syntax again (decode once; five defects fixed), and the Turtle writer writes undelimited text only for quoted triples.",
            ", decode-once taint, writer/reader language agreement"),
    "C16": (" Third round: measured recognisers return the remainder right after their token; every recursion cycle of the parser enters a nesting guard "
            "that it holds across its recursive calls, and every loop that deepens a recursive tree type charges a persistent depth budget whose failure "
            "leaves the parse (three stack-overflow defects fixed).",
            ", call-graph SCCs with function-value edges, guard recognition by behaviour, deepening-loop analysis (T-DEPTH)"),
    "C17": (" Third round: the lowering charges a depth budget for every operator it chains (stack overflow in the optimizer for long requests, fixed), and "
            "every operation that combines the cost estimator's saturating estimates is itself saturating (overflow panic under the project's dev profile, fixed).",
            ", deepening-loop analysis (T-DEPTH), estimate taint to overflow-checked arithmetic"),
    "C18": (" Third round: the fresh-name counter is a &mut parameter threaded through every recursive call.", ""),
    "C19": (" Third round: the repair search starts from the complete fact set and returns the repairs as found.", ""),
}
for _pid, (_t, _k) in EXTRA2.items():
    _ref, _text, _tech = CLAIMS[_pid]
    CLAIMS[_pid] = (_ref, _text + _t, _tech + _k)

EXTRA3 = {
    "C01": " Seeded rounds d-e: a dataset clause replaces the dataset (the view's two lists derive from the query's FROM / FROM NAMED only).",
    "C02": " Seeded rounds d-e: an optimizer candidate keeps the node's children, and the incoming solutions enter a join once.",
    "C05": " Seeded rounds d-e: match-or-bind sees its own bindings; the rule-filter evaluator accepts only after every operator was excluded, compares "
           "identifiers only when both come from the bindings and never defaults a non-number to a number (two defects fixed).",
    "C06": " Seeded rounds d-e: the exact model counter returns by expansion (no closed-form shortcut) and saturation compares whole tags.",
    "C07": " Seeded rounds d-e: the keys of twin caches have the same shape, and absence is never encoded by a value the allocator hands out.",
    "C08": " Seeded rounds d-e: a choice of an exclusive group is never registered as an independent variable.",
    "C10": " Seeded rounds d-e: the key that orders emitted rows is unique within a row.",
    "C11": " Seeded rounds d-e: every window declaration is paired with its WINDOW block by a search over the complete block list.",
    "C12": " Seeded rounds d-e: delta and total play their roles by use, and the carried-over facts are filtered by expiry only.",
    "C13": " Seeded rounds d-e: escapes are tracked by state, not by looking back, and the prefix expander cuts a prefixed name at its first colon.",
    "C14": " Seeded rounds d-e: undelimited placeholders are written only after excluding the statement punctuation, and the IRI guess requires a non-empty scheme.",
    "C16": " Seeded rounds d-e: a failed depth charge is refunded, nom offsets are taken between a slice and its own remainder, and a comment ends at CR or LF.",
}
for _pid, _t in EXTRA3.items():
    _ref, _text, _tech = CLAIMS[_pid]
    CLAIMS[_pid] = (_ref, _text + _t, _tech)

EXTRA4 = {
    "C01": " Seeded round f: the seen-set of a scan lives for one incoming row.",
    "C02": " Seeded round f: one seen-set per incoming row (a set that survives a row makes the answer depend on the join algorithm).",
    "C03": " Seeded round f: an operation runs under its own prologue (request PREFIX declarations overwrite remembered ones).",
    "C04": " Seeded round f: creating a graph that exists is a no-op; summary fields are updated by every writer of the quad indexes.",
    "C05": " Seeded round f: rule filters are evaluated on complete bindings only.",
    "C06": " Seeded round f: the change flags of a provenance round are sticky.",
    "C07": " Seeded round f: the budgeted and the unbudgeted twin use the same ordering operations on node identifiers.",
    "C08": " Seeded round f: the exactly-one constraint of an exclusive group ranges over the group's whole member list.",
    "C09": " Seeded round f: window bounds are as wide as the clock (no numeric cast below 64 bits in the windowing code).",
    "C10": " Seeded round f: every loaded item is recorded for eviction on every path.",
    "C16": " Probe round: the re-tokeniser of quoted-triple source text knows the parser's comment syntax (defect fixed).",
}
for _pid, _t in EXTRA4.items():
    _ref, _text, _tech = CLAIMS[_pid]
    CLAIMS[_pid] = (_ref, _text + _t, _tech)

EXTRA5 = {
    "C01": " Seeded round g: a subquery is evaluated in its own scope (from the unit solution).",
    "C02": " Seeded round g: every candidate plan is built for its own node.",
    "C03": " Seeded round g: a template graph name that cannot be instantiated skips the quad instead of addressing the default graph.",
    "C05": " Seeded round g: the snapshot a parallel round joins against was taken after the previous round's facts went in.",
    "C08": " Seeded round g: a connective is compiled from all its children (early exit only on a test of the operator).",
    "C09": " Probe round: window bounds are computed in integer arithmetic (defect fixed).",
    "C13": " Probe / seeded rounds f-g: surrogate tests are closed ranges, trailing comments are stripped by an IRI-, literal- and quoted-triple-aware scanner (defect fixed), XML character data is not trimmed, terms keep their letter case.",
    "C14": " Seeded round g: the term cleaners keep the letter case; writers' string-building helpers are analysed with them.",
    "C16": " Seeded round g: the branch list of a UNION is complete.",
}
for _pid, _t in EXTRA5.items():
    _ref, _text, _tech = CLAIMS[_pid]
    CLAIMS[_pid] = (_ref, _text + _t, _tech)

EXTRA6 = {
    "C07": " Seeded round i: anything kept in the manager while counting is dropped by every writer of the literal weights.",
    "C10": " Seeded round i: a window delivers its content with a send that cannot drop it.",
    "C14": " Seeded round i: the loaders' comment scanner keeps the nesting depth of quoted triples.",
    "C15": " Seeded round i: in union the merged stores and the translation cache are written by the re-encoder only.",
}
for _pid, _t in EXTRA6.items():
    _ref, _text, _tech = CLAIMS[_pid]
    CLAIMS[_pid] = (_ref, _text + _t, _tech)

NA = {}

PENDING = "check not implemented yet in this revision (see DESIGN.md for the planned rules)"


def main():
    ids = [json.loads(l)["id"] for l in open(os.path.join(VERIF, "properties.jsonl"))]
    checks = []
    for pid in ids:
        if pid not in CLAIMS:
            continue
        ref, text, tech = CLAIMS[pid]
        checks.append({
            "property_id": pid,
            "quick_cmd": "./check %s --tier quick" % pid,
            "thorough_cmd": "./check %s --tier thorough" % pid,
            "evidence_file": "/verif/evidence/%s.json" % pid,
            "replay_cmd_template": "./check %s --explain {path}" % pid,
            "engine": "kmir-rules",
            "level_claimed": {"category": "other", "text": text, "design_ref": ref},
            "level_note": "Trusted: rustc nightly MIR (mir-opt-level=0) as a faithful lowering of the type-checked program; "
                          "cargo's default feature set on x86_64-linux; the rule scripts; class-hierarchy expansion for "
                          "unresolved trait calls. Structural necessary conditions only; not the behavioural property.",
            "technique": "static analysis: " + tech,
        })
    na = []
    for pid in ids:
        if pid in CLAIMS:
            continue
        na.append({"property_id": pid, "reason": NA.get(pid, PENDING)})
    m = {
        "version": 1,
        "setup_cmd": "./setup.sh",
        "hooks": {
            "guard": "kolibrie_verif",
            "enable": "none: static analysis needs no instrumentation; checks run `cargo +nightly check` on /repo with a "
                      "rustc_private driver as RUSTC_WORKSPACE_WRAPPER",
            "baseline_off_cmd": "cd /repo && cargo test --workspace --no-fail-fast --offline",
            "source_commits": [],
            "add_only": True,
        },
        "engines": [
            {"name": "kmir", "path": "tools/kmir", "serves_properties": sorted(CLAIMS),
             "kind_free_text": "rustc_private driver dumping MIR/ADT/impl facts of every workspace crate as JSON lines"},
            {"name": "kmir-rules", "path": "rules", "serves_properties": sorted(CLAIMS),
             "kind_free_text": "Python rule scripts over the facts: CFG/dominators, call graph + CHA, taint, abstract "
                               "interpretation, writer sets; fail-closed floors; known findings by exact key"},
        ],
        "checks": checks,
        "not_applicable": na,
        "notes": "All checks are static (no repository code is executed). Exit 2 = /repo does not type-check (no verdict). "
                 "No hooks were added to /repo. /repo carries unguarded `fix:` commits for genuine defects (listed as `fixed` with their "
                 "commit in known_findings.json); after each of them the workspace suite was re-run in a scratch worktree: 405 tests pass, the "
                 "only failure is `rsp_ql_dstream_semantics`, which already fails on the pinned tree. design-notes/probes/ holds the throw-away "
                 "differential / model tests that pointed at those defects; they are not run by any check.",
    }
    json.dump(m, open(os.path.join(VERIF, "MANIFEST.json"), "w"), indent=1)
    print("MANIFEST.json: %d checks, %d not applicable" % (len(checks), len(na)))


if __name__ == "__main__":
    main()

#!/bin/sh
# usage: tools/confirm_seed.sh <worktree> <demo test spec e.g. "-p shared --test seeded_demo">
# Confirms a seeded change: demo fails with it, passes without it, full suite otherwise green. Writes <wt>/_out/confirm.txt
WT="$1"; shift
SPEC="$*"
cd "$WT" || exit 2
OUT="$WT/_out/confirm.txt"
: > "$OUT"
echo "== demo WITH change" >> "$OUT"
cargo test --offline $SPEC >> "$OUT.with.log" 2>&1; echo "rc_with=$?" >> "$OUT"
grep -E "^test result" "$OUT.with.log" >> "$OUT"
# NOTE: never `git stash` here - refs/stash is shared by all worktrees of the repository
git diff > "$WT/_out/confirm_change.diff"
git checkout -- $(git diff --name-only)
echo "== demo WITHOUT change" >> "$OUT"
cargo test --offline $SPEC >> "$OUT.without.log" 2>&1; echo "rc_without=$?" >> "$OUT"
grep -E "^test result" "$OUT.without.log" >> "$OUT"
git apply "$WT/_out/confirm_change.diff"
echo "== full suite WITH change" >> "$OUT"
cargo test --workspace --offline --no-fail-fast --lib --bins --tests -j 8 > "$OUT.suite.log" 2>&1; echo "rc_suite=$?" >> "$OUT"
grep -E "^test .* FAILED|^test result: FAILED|failed" "$OUT.suite.log" | sort | uniq -c | head -20 >> "$OUT"
echo "passed=$(grep -c '\.\.\. ok$' "$OUT.suite.log") failed=$(grep -c '\.\.\. FAILED$' "$OUT.suite.log")" >> "$OUT"
echo DONE >> "$OUT"

// kmir: rustc_private driver that dumps MIR facts as JSON lines.
//
// Used as RUSTC_WORKSPACE_WRAPPER under `cargo +nightly check`. For every
// workspace crate compiled it writes ONE file
//   $KMIR_OUT/<CARGO_PKG_NAME>__<crate name>__<kind>.jsonl
// (a single write per process) with one record per line:
//   {"rec":"meta", ...}            crate name, package, counts
//   {"rec":"adt", ...}             one per local ADT
//   {"rec":"body", ...}            one per fn / assoc fn / closure body
// Nothing is executed; only the type-checked program is inspected.
#![feature(rustc_private)]
#![allow(clippy::all)]

extern crate rustc_abi;
extern crate rustc_driver;
extern crate rustc_hir;
extern crate rustc_interface;
extern crate rustc_middle;
extern crate rustc_session;
extern crate rustc_span;

use rustc_hir::def::DefKind;
use rustc_hir::def_id::{DefId, LOCAL_CRATE};
use rustc_middle::mir::{
    AggregateKind, BasicBlock, Body, BorrowKind, Const, Operand, Place, ProjectionElem, Rvalue,
    StatementKind, TerminatorKind,
};
use rustc_middle::ty::print::{with_no_trimmed_paths, with_no_visible_paths, with_resolve_crate_name};
use rustc_middle::ty::{self, Ty, TyCtxt};
use rustc_span::Span;
use std::fmt::Write as _;

// ---------------------------------------------------------------- JSON

fn esc(s: &str, out: &mut String) {
    out.push('"');
    for c in s.chars() {
        match c {
            '"' => out.push_str("\\\""),
            '\\' => out.push_str("\\\\"),
            '\n' => out.push_str("\\n"),
            '\r' => out.push_str("\\r"),
            '\t' => out.push_str("\\t"),
            c if (c as u32) < 0x20 => {
                let _ = write!(out, "\\u{:04x}", c as u32);
            }
            c => out.push(c),
        }
    }
    out.push('"');
}

fn js(s: &str) -> String {
    let mut o = String::with_capacity(s.len() + 2);
    esc(s, &mut o);
    o
}

struct Obj(String);
impl Obj {
    fn new() -> Self {
        Obj(String::from("{"))
    }
    fn key(&mut self, k: &str) {
        if self.0.len() > 1 {
            self.0.push(',');
        }
        esc(k, &mut self.0);
        self.0.push(':');
    }
    fn s(&mut self, k: &str, v: &str) -> &mut Self {
        self.key(k);
        esc(v, &mut self.0);
        self
    }
    fn raw(&mut self, k: &str, v: &str) -> &mut Self {
        self.key(k);
        self.0.push_str(v);
        self
    }
    fn n(&mut self, k: &str, v: i128) -> &mut Self {
        self.key(k);
        let _ = write!(self.0, "{}", v);
        self
    }
    fn b(&mut self, k: &str, v: bool) -> &mut Self {
        self.key(k);
        self.0.push_str(if v { "true" } else { "false" });
        self
    }
    fn done(mut self) -> String {
        self.0.push('}');
        self.0
    }
}

fn arr(items: impl IntoIterator<Item = String>) -> String {
    let mut o = String::from("[");
    let mut first = true;
    for i in items {
        if !first {
            o.push(',');
        }
        first = false;
        o.push_str(&i);
    }
    o.push(']');
    o
}

// ---------------------------------------------------------------- names

fn canon<'tcx>(tcx: TyCtxt<'tcx>, did: DefId) -> String {
    format!(
        "{}{}",
        tcx.crate_name(did.krate),
        tcx.def_path(did).to_string_no_crate_verbose()
    )
}

fn pretty<'tcx>(tcx: TyCtxt<'tcx>, did: DefId) -> String {
    with_no_visible_paths!(with_resolve_crate_name!(with_no_trimmed_paths!(tcx.def_path_str(did))))
}

fn tys<'tcx>(t: Ty<'tcx>) -> String {
    with_no_visible_paths!(with_resolve_crate_name!(with_no_trimmed_paths!(t.to_string())))
}

fn span_loc<'tcx>(tcx: TyCtxt<'tcx>, sp: Span) -> (String, usize, usize, usize) {
    let sm = tcx.sess.source_map();
    // use the call-site of macro expansions so the location is in user source
    let sp2 = sp.source_callsite();
    let lo = sm.lookup_char_pos(sp2.lo());
    let hi = sm.lookup_char_pos(sp2.hi());
    let file = match &lo.file.name {
        rustc_span::FileName::Real(r) => match r.local_path() {
            Some(p) => p.to_string_lossy().to_string(),
            None => format!("{:?}", r),
        },
        other => format!("{:?}", other),
    };
    (file, lo.line, lo.col.0, hi.line)
}

// ---------------------------------------------------------------- constants that are tables of strings

struct StrCollector<'a, 'tcx> {
    tcx: TyCtxt<'tcx>,
    depth: usize,
    out: &'a mut Vec<String>,
}

impl<'a, 'tcx> rustc_middle::mir::visit::Visitor<'tcx> for StrCollector<'a, 'tcx> {
    fn visit_const_operand(&mut self, c: &rustc_middle::mir::ConstOperand<'tcx>, _loc: rustc_middle::mir::Location) {
        let cty = c.const_.ty();
        let is_str_ref = match cty.kind() {
            ty::Ref(_, inner, _) => inner.is_str(),
            _ => false,
        };
        if is_str_ref {
            let d = with_no_trimmed_paths!(format!("{}", c.const_));
            if d.len() < 300 {
                self.out.push(d);
            }
        }
        if let Const::Unevaluated(uv, _) = c.const_ {
            collect_const_strs(self.tcx, uv.def, uv.promoted.map(|p| p.as_usize()), self.depth + 1, self.out);
        }
    }
}

fn collect_const_strs<'tcx>(tcx: TyCtxt<'tcx>, def: DefId, promoted: Option<usize>, depth: usize, out: &mut Vec<String>) {
    use rustc_middle::mir::visit::Visitor;
    if depth > 3 || !def.is_local() || out.len() > 200 {
        return;
    }
    match promoted {
        Some(i) => {
            let proms = tcx.promoted_mir(def);
            if let Some(body) = proms.iter().nth(i) {
                let mut v = StrCollector { tcx, depth, out };
                v.visit_body(body);
            }
        }
        None => {
            match tcx.def_kind(def) {
                DefKind::Const { .. } | DefKind::AssocConst { .. } | DefKind::InlineConst | DefKind::AnonConst | DefKind::Static { .. } => {}
                _ => return,
            }
            if !tcx.is_mir_available(def) && !matches!(tcx.def_kind(def), DefKind::Const { .. } | DefKind::AssocConst { .. } | DefKind::Static { .. }) {
                return;
            }
            let body = tcx.mir_for_ctfe(def);
            let mut v = StrCollector { tcx, depth, out };
            v.visit_body(body);
            // constants promote their borrowed temporaries too
            let proms = tcx.promoted_mir(def);
            for body in proms.iter() {
                let mut v = StrCollector { tcx, depth: depth + 1, out };
                v.visit_body(body);
            }
        }
    }
}

// ---------------------------------------------------------------- places / operands

struct Cx<'a, 'tcx> {
    tcx: TyCtxt<'tcx>,
    body: &'a Body<'tcx>,
    env: ty::TypingEnv<'tcx>,
}

impl<'a, 'tcx> Cx<'a, 'tcx> {
    fn place(&self, p: &Place<'tcx>) -> String {
        let tcx = self.tcx;
        let mut o = Obj::new();
        o.n("l", p.local.as_u32() as i128);
        let mut pty = rustc_middle::mir::PlaceTy::from_ty(self.body.local_decls[p.local].ty);
        let mut projs: Vec<String> = Vec::new();
        let mut text = format!("_{}", p.local.as_u32());
        for elem in p.projection.iter() {
            let mut e = Obj::new();
            match elem {
                ProjectionElem::Deref => {
                    e.s("k", "deref");
                    text = format!("(*{})", text);
                }
                ProjectionElem::Field(f, fty) => {
                    e.s("k", "field");
                    e.n("i", f.as_u32() as i128);
                    let mut fname = format!("{}", f.as_u32());
                    let base = pty.ty;
                    if let ty::Adt(adt, _) = base.kind() {
                        let vidx = pty.variant_index.unwrap_or(rustc_abi::FIRST_VARIANT);
                        if adt.variants().len() > vidx.as_usize() {
                            let v = &adt.variants()[vidx];
                            if let Some(fd) = v.fields.get(f) {
                                fname = fd.name.to_string();
                            }
                            e.s("adt", &canon(tcx, adt.did()));
                            if adt.is_enum() {
                                e.s("variant", v.name.as_str());
                            }
                        }
                    } else if let ty::Closure(cdid, _) = base.kind() {
                        e.s("closure", &canon(tcx, *cdid));
                    } else if let ty::Tuple(elems) = base.kind() {
                        e.s("tuple", &tys(base));
                        e.n("arity", elems.len() as i128);
                    }
                    e.s("n", &fname);
                    e.s("ty", &tys(fty));
                    text = format!("{}.{}", text, fname);
                }
                ProjectionElem::Index(l) => {
                    e.s("k", "index");
                    e.n("i", l.as_u32() as i128);
                    text = format!("{}[_{}]", text, l.as_u32());
                }
                ProjectionElem::ConstantIndex { offset, min_length, from_end } => {
                    e.s("k", "cindex");
                    e.n("off", offset as i128);
                    e.n("min", min_length as i128);
                    e.b("from_end", from_end);
                    text = format!("{}[{}{}]", text, if from_end { "-" } else { "" }, offset);
                }
                ProjectionElem::Subslice { from, to, from_end } => {
                    e.s("k", "subslice");
                    e.n("from", from as i128);
                    e.n("to", to as i128);
                    e.b("from_end", from_end);
                    text = format!("{}[{}..{}]", text, from, to);
                }
                ProjectionElem::Downcast(name, vidx) => {
                    e.s("k", "downcast");
                    e.n("i", vidx.as_u32() as i128);
                    let mut vname = name.map(|s| s.to_string()).unwrap_or_default();
                    if let ty::Adt(adt, _) = pty.ty.kind() {
                        if adt.variants().len() > vidx.as_usize() {
                            vname = adt.variants()[vidx].name.to_string();
                        }
                        e.s("adt", &canon(tcx, adt.did()));
                    }
                    e.s("n", &vname);
                    text = format!("({} as {})", text, vname);
                }
                other => {
                    e.s("k", "other");
                    e.s("dbg", &format!("{:?}", other));
                    text = format!("{}.?", text);
                }
            }
            projs.push(e.done());
            pty = pty.projection_ty(tcx, elem);
        }
        o.raw("p", &arr(projs));
        o.s("t", &text);
        o.done()
    }

    fn constant(&self, c: &rustc_middle::mir::ConstOperand<'tcx>) -> String {
        let tcx = self.tcx;
        let mut o = Obj::new();
        o.s("k", "const");
        let cty = c.const_.ty();
        let is_fndef = matches!(cty.kind(), ty::FnDef(..));
        if !is_fndef {
            o.s("ty", &tys(cty));
        }
        match cty.kind() {
            ty::FnDef(did, args) => {
                o.s("fn", &canon(tcx, *did));
                o.s("fn_pretty", &pretty(tcx, *did));
                if let Some(r) = self.resolve(*did, args) {
                    o.s("fn_resolved", &canon(tcx, r));
                }
            }
            ty::Closure(did, _) => {
                o.s("closure", &canon(tcx, *did));
            }
            _ => {}
        }
        match c.const_ {
            Const::Unevaluated(uv, _) => {
                o.s("const_def", &canon(tcx, uv.def));
                if let Some(p) = uv.promoted {
                    o.n("promoted", p.as_u32() as i128);
                }
                // string literals inside the referenced constant (tables such as `const KEYWORDS: [&str; 4]`)
                let mut strs: Vec<String> = Vec::new();
                collect_const_strs(tcx, uv.def, uv.promoted.map(|p| p.as_usize()), 0, &mut strs);
                if !strs.is_empty() {
                    o.raw("strs", &arr(strs.iter().map(|x| js(x))));
                }
            }
            _ => {}
        }
        // value: try scalar int
        let mut val: Option<String> = None;
        if cty.is_integral() || cty.is_bool() || cty.is_char() {
            if let Some(sc) = c.const_.try_eval_scalar_int(tcx, self.env) {
                let size = sc.size();
                if cty.is_signed() {
                    val = Some(format!("{}", sc.to_int(size)));
                } else {
                    val = Some(format!("{}", sc.to_uint(size)));
                }
            }
        }
        if let Some(v) = val {
            o.s("v", &v);
        }
        if is_fndef {
            return o.done();
        }
        let dbg = with_no_trimmed_paths!(format!("{}", c.const_));
        if dbg.len() < 400 {
            o.s("d", &dbg);
        } else {
            o.s("d", &dbg[..dbg.char_indices().nth(390).map(|x| x.0).unwrap_or(dbg.len())]);
        }
        o.done()
    }

    fn operand(&self, op: &Operand<'tcx>) -> String {
        match op {
            Operand::Copy(p) => {
                let mut o = Obj::new();
                o.s("k", "copy");
                o.raw("pl", &self.place(p));
                o.done()
            }
            Operand::Move(p) => {
                let mut o = Obj::new();
                o.s("k", "move");
                o.raw("pl", &self.place(p));
                o.done()
            }
            Operand::Constant(c) => self.constant(c),
            #[allow(unreachable_patterns)]
            other => {
                let mut o = Obj::new();
                o.s("k", "other");
                o.s("dbg", &format!("{:?}", other));
                o.done()
            }
        }
    }

    fn resolve(&self, did: DefId, args: ty::GenericArgsRef<'tcx>) -> Option<DefId> {
        let tcx = self.tcx;
        match tcx.def_kind(did) {
            DefKind::Fn | DefKind::AssocFn => {}
            _ => return None,
        }
        match ty::Instance::try_resolve(tcx, self.env, did, args) {
            Ok(Some(inst)) => Some(inst.def_id()),
            _ => None,
        }
    }

    fn rvalue(&self, rv: &Rvalue<'tcx>) -> String {
        let tcx = self.tcx;
        let mut o = Obj::new();
        match rv {
            Rvalue::Use(op, ..) => {
                o.s("rv", "use");
                o.raw("op", &self.operand(op));
            }
            Rvalue::Repeat(op, _) => {
                o.s("rv", "repeat");
                o.raw("op", &self.operand(op));
            }
            Rvalue::Ref(_, bk, p) => {
                o.s("rv", "ref");
                o.s(
                    "bk",
                    match bk {
                        BorrowKind::Shared => "shared",
                        BorrowKind::Fake(_) => "fake",
                        BorrowKind::Mut { .. } => "mut",
                    },
                );
                o.raw("pl", &self.place(p));
            }
            Rvalue::RawPtr(kind, p) => {
                o.s("rv", "rawptr");
                o.s("bk", &format!("{:?}", kind));
                o.raw("pl", &self.place(p));
            }
            Rvalue::Cast(kind, op, t) => {
                o.s("rv", "cast");
                o.s("kind", &format!("{:?}", kind));
                o.raw("op", &self.operand(op));
                o.s("ty", &tys(*t));
            }
            Rvalue::BinaryOp(bop, ops) => {
                o.s("rv", "binop");
                o.s("op", &format!("{:?}", bop));
                o.raw("a", &self.operand(&ops.0));
                o.raw("b", &self.operand(&ops.1));
            }
            Rvalue::UnaryOp(uop, op) => {
                o.s("rv", "unop");
                o.s("op", &format!("{:?}", uop));
                o.raw("a", &self.operand(op));
            }
            Rvalue::Discriminant(p) => {
                o.s("rv", "discriminant");
                o.raw("pl", &self.place(p));
                let pt = p.ty(self.body, tcx).ty;
                if let ty::Adt(adt, _) = pt.kind() {
                    o.s("adt", &canon(tcx, adt.did()));
                    if adt.is_enum() {
                        let vs: Vec<String> = adt
                            .discriminants(tcx)
                            .map(|(vidx, d)| {
                                format!("[{},{}]", js(&format!("{}", d.val)), js(adt.variants()[vidx].name.as_str()))
                            })
                            .collect();
                        o.raw("variants", &arr(vs));
                    }
                }
            }
            Rvalue::Aggregate(kind, ops) => {
                o.s("rv", "aggregate");
                match &**kind {
                    AggregateKind::Adt(did, vidx, _, _, _) => {
                        o.s("ak", "adt");
                        o.s("adt", &canon(tcx, *did));
                        let adt = tcx.adt_def(*did);
                        let v = &adt.variants()[*vidx];
                        o.s("variant", v.name.as_str());
                        let fns: Vec<String> = v.fields.iter().map(|f| js(f.name.as_str())).collect();
                        o.raw("fields", &arr(fns));
                    }
                    AggregateKind::Tuple => {
                        o.s("ak", "tuple");
                    }
                    AggregateKind::Array(_) => {
                        o.s("ak", "array");
                    }
                    AggregateKind::Closure(did, _) => {
                        o.s("ak", "closure");
                        o.s("closure", &canon(tcx, *did));
                    }
                    other => {
                        o.s("ak", "other");
                        o.s("dbg", &format!("{:?}", other));
                    }
                }
                o.raw("ops", &arr(ops.iter().map(|x| self.operand(x))));
            }
            Rvalue::CopyForDeref(p) => {
                o.s("rv", "use");
                let mut oo = Obj::new();
                oo.s("k", "copy");
                oo.raw("pl", &self.place(p));
                o.raw("op", &oo.done());
            }
            other => {
                o.s("rv", "other");
                o.s("dbg", &format!("{:?}", other));
            }
        }
        o.done()
    }

    fn line(&self, sp: Span) -> (usize, bool) {
        let (_, l, _, _) = span_loc(self.tcx, sp);
        (l, sp.from_expansion())
    }

    fn block(&self, bb: BasicBlock) -> String {
        let tcx = self.tcx;
        let data = &self.body.basic_blocks[bb];
        let mut o = Obj::new();
        o.n("bb", bb.as_u32() as i128);
        if data.is_cleanup {
            o.b("cleanup", true);
        }
        let mut stmts = Vec::new();
        for st in &data.statements {
            let mut s = Obj::new();
            let (l, exp) = self.line(st.source_info.span);
            match &st.kind {
                StatementKind::Assign(b) => {
                    s.s("s", "assign");
                    s.raw("pl", &self.place(&b.0));
                    s.raw("rv", &self.rvalue(&b.1));
                }
                StatementKind::SetDiscriminant { place, variant_index } => {
                    s.s("s", "setdiscr");
                    s.raw("pl", &self.place(place));
                    s.n("variant", variant_index.as_u32() as i128);
                }
                StatementKind::StorageLive(_)
                | StatementKind::StorageDead(_)
                | StatementKind::Nop
                | StatementKind::FakeRead(..)
                | StatementKind::PlaceMention(..)
                | StatementKind::AscribeUserType(..)
                | StatementKind::Coverage(..)
                | StatementKind::ConstEvalCounter => continue,
                other => {
                    s.s("s", "other");
                    s.s("dbg", &format!("{:?}", other));
                }
            }
            s.n("ln", l as i128);
            if exp {
                s.b("exp", true);
            }
            stmts.push(s.done());
        }
        o.raw("st", &arr(stmts));
        let term = data.terminator();
        let mut t = Obj::new();
        let (l, exp) = self.line(term.source_info.span);
        match &term.kind {
            TerminatorKind::Goto { target } => {
                t.s("t", "goto");
                t.n("target", target.as_u32() as i128);
            }
            TerminatorKind::SwitchInt { discr, targets } => {
                t.s("t", "switch");
                t.raw("discr", &self.operand(discr));
                let ts: Vec<String> =
                    targets.iter().map(|(v, b)| format!("[{},{}]", js(&format!("{}", v)), b.as_u32())).collect();
                t.raw("targets", &arr(ts));
                t.n("otherwise", targets.otherwise().as_u32() as i128);
            }
            TerminatorKind::Return => {
                t.s("t", "return");
            }
            TerminatorKind::Unreachable => {
                t.s("t", "unreachable");
            }
            TerminatorKind::UnwindResume => {
                t.s("t", "resume");
            }
            TerminatorKind::UnwindTerminate(_) => {
                t.s("t", "terminate");
            }
            TerminatorKind::Drop { place, target, unwind, .. } => {
                t.s("t", "drop");
                t.raw("pl", &self.place(place));
                t.s("ty", &tys(place.ty(self.body, tcx).ty));
                t.n("target", target.as_u32() as i128);
                if let rustc_middle::mir::UnwindAction::Cleanup(c) = unwind {
                    t.n("cleanup", c.as_u32() as i128);
                }
            }
            TerminatorKind::Call { func, args, destination, target, unwind, fn_span, .. } => {
                t.s("t", "call");
                t.raw("func", &self.operand(func));
                if let Operand::Constant(c) = func {
                    if let ty::FnDef(did, gargs) = c.const_.ty().kind() {
                        t.s("callee", &canon(tcx, *did));
                        t.s("callee_pretty", &pretty(tcx, *did));
                        let ga: Vec<String> = gargs.iter().map(|a| js(&with_no_visible_paths!(with_resolve_crate_name!(with_no_trimmed_paths!(a.to_string()))))).collect();
                        t.raw("gargs", &arr(ga));
                        if let Some(r) = self.resolve(*did, gargs) {
                            t.s("resolved", &canon(tcx, r));
                        }
                        // trait the callee belongs to (if a trait method)
                        if let Some(tr) = tcx.trait_of_assoc(*did) {
                            t.s("trait", &canon(tcx, tr));
                        }
                    }
                }
                t.raw("args", &arr(args.iter().map(|a| self.operand(&a.node))));
                t.raw("dest", &self.place(destination));
                match target {
                    Some(b) => {
                        t.n("target", b.as_u32() as i128);
                    }
                    None => {
                        t.raw("target", "null");
                    }
                }
                if let rustc_middle::mir::UnwindAction::Cleanup(c) = unwind {
                    t.n("cleanup", c.as_u32() as i128);
                }
                let (fl, _) = self.line(*fn_span);
                t.n("fln", fl as i128);
            }
            TerminatorKind::Assert { cond, expected, msg, target, unwind } => {
                t.s("t", "assert");
                t.raw("cond", &self.operand(cond));
                t.b("expected", *expected);
                use rustc_middle::mir::AssertKind as AK;
                let mut ops: Vec<String> = Vec::new();
                let kind = match &**msg {
                    AK::BoundsCheck { len, index } => {
                        ops.push(self.operand(len));
                        ops.push(self.operand(index));
                        "BoundsCheck".to_string()
                    }
                    AK::Overflow(op, a, b) => {
                        ops.push(self.operand(a));
                        ops.push(self.operand(b));
                        format!("Overflow({:?})", op)
                    }
                    AK::OverflowNeg(a) => {
                        ops.push(self.operand(a));
                        "OverflowNeg".to_string()
                    }
                    AK::DivisionByZero(a) => {
                        ops.push(self.operand(a));
                        "DivisionByZero".to_string()
                    }
                    AK::RemainderByZero(a) => {
                        ops.push(self.operand(a));
                        "RemainderByZero".to_string()
                    }
                    other => {
                        let d = format!("{:?}", other);
                        d.split(|c: char| !c.is_alphanumeric()).next().unwrap_or("Other").to_string()
                    }
                };
                t.s("kind", &kind);
                t.raw("ops", &arr(ops));
                t.n("target", target.as_u32() as i128);
                if let rustc_middle::mir::UnwindAction::Cleanup(c) = unwind {
                    t.n("cleanup", c.as_u32() as i128);
                }
            }
            TerminatorKind::FalseEdge { real_target, .. } => {
                t.s("t", "goto");
                t.n("target", real_target.as_u32() as i128);
            }
            TerminatorKind::FalseUnwind { real_target, .. } => {
                t.s("t", "goto");
                t.n("target", real_target.as_u32() as i128);
            }
            other => {
                t.s("t", "other");
                t.s("dbg", &format!("{:?}", other));
                let succ: Vec<String> = term.successors().map(|b| format!("{}", b.as_u32())).collect();
                t.raw("succ", &arr(succ));
            }
        }
        t.n("ln", l as i128);
        if exp {
            t.b("exp", true);
        }
        o.raw("term", &t.done());
        o.done()
    }
}

// ---------------------------------------------------------------- per item

fn dump_body<'tcx>(tcx: TyCtxt<'tcx>, did: DefId, out: &mut String) -> bool {
    let kind = tcx.def_kind(did);
    let is_closure = matches!(kind, DefKind::Closure);
    match kind {
        DefKind::Fn | DefKind::AssocFn | DefKind::Closure => {}
        _ => return false,
    }
    if !tcx.is_mir_available(did) {
        return false;
    }
    // coroutine closures (async) are skipped: not used by the rules
    if tcx.is_coroutine(did) {
        return false;
    }
    let body: &Body<'tcx> = tcx.optimized_mir(did);
    let env = ty::TypingEnv::post_analysis(tcx, did);
    let cx = Cx { tcx, body, env };
    let mut o = Obj::new();
    o.s("rec", "body");
    o.s("key", &canon(tcx, did));
    o.s("pretty", &pretty(tcx, did));
    o.s("crate", tcx.crate_name(LOCAL_CRATE).as_str());
    o.s("kind", &format!("{:?}", kind));
    let (file, l0, _, l1) = span_loc(tcx, body.span);
    o.s("file", &file);
    o.n("line", l0 as i128);
    o.n("line_end", l1 as i128);
    o.b("exp", body.span.from_expansion());
    if is_closure {
        let parent = tcx.parent(did);
        o.s("parent", &canon(tcx, parent));
        let root = tcx.typeck_root_def_id(did);
        o.s("root", &canon(tcx, root));
    } else {
        let vis = tcx.visibility(did);
        o.s("vis", &format!("{:?}", vis));
        o.b("pub", vis.is_public());
        // impl / trait container
        let parent = tcx.parent(did);
        match tcx.def_kind(parent) {
            DefKind::Impl { of_trait } => {
                o.s("impl", &canon(tcx, parent));
                let self_ty = tcx.type_of(parent).instantiate_identity().skip_norm_wip();
                o.s("self_ty", &tys(self_ty));
                if let ty::Adt(adt, _) = self_ty.kind() {
                    o.s("self_adt", &canon(tcx, adt.did()));
                }
                if of_trait {
                    let tr = tcx.impl_trait_ref(parent).instantiate_identity().skip_norm_wip();
                    o.s("impl_trait", &canon(tcx, tr.def_id));
                    let ai = tcx.associated_item(did);
                    if let Some(ti) = ai.trait_item_def_id() {
                        o.s("trait_item", &canon(tcx, ti));
                    }
                    o.b("derived", tcx.is_automatically_derived(parent));
                }
            }
            DefKind::Trait => {
                o.s("in_trait", &canon(tcx, parent));
            }
            _ => {}
        }
    }
    // signature
    let nargs = body.arg_count;
    o.n("nargs", nargs as i128);
    o.s("ret", &tys(body.local_decls[rustc_middle::mir::RETURN_PLACE].ty));
    // locals
    let mut names: Vec<Option<String>> = vec![None; body.local_decls.len()];
    let mut upvar_names: Vec<String> = Vec::new();
    for vdi in &body.var_debug_info {
        if let rustc_middle::mir::VarDebugInfoContents::Place(p) = &vdi.value {
            if p.projection.is_empty() {
                let i = p.local.as_usize();
                if names[i].is_none() {
                    names[i] = Some(vdi.name.to_string());
                }
            } else if is_closure && p.local.as_u32() == 1 {
                // captured variable: _1.N or (*_1).N possibly followed by deref
                let mut idx: Option<u32> = None;
                for e in p.projection.iter() {
                    if let ProjectionElem::Field(f, _) = e {
                        idx = Some(f.as_u32());
                        break;
                    }
                }
                if let Some(i) = idx {
                    upvar_names.push(format!("[{},{}]", i, js(vdi.name.as_str())));
                }
            }
        }
    }
    let locals: Vec<String> = body
        .local_decls
        .iter_enumerated()
        .map(|(l, d)| {
            let mut lo = Obj::new();
            lo.s("ty", &tys(d.ty));
            if let Some(n) = &names[l.as_usize()] {
                lo.s("name", n);
            }
            if d.mutability.is_mut() {
                lo.b("mut", true);
            }
            lo.done()
        })
        .collect();
    o.raw("locals", &arr(locals));
    if is_closure {
        o.raw("upvars", &arr(upvar_names));
    }
    let blocks: Vec<String> = body.basic_blocks.indices().map(|bb| cx.block(bb)).collect();
    o.raw("blocks", &arr(blocks));
    out.push_str(&o.done());
    out.push('\n');
    true
}

fn dump_adts<'tcx>(tcx: TyCtxt<'tcx>, out: &mut String) -> usize {
    let mut n = 0;
    for id in tcx.hir_crate_items(()).definitions() {
        let did = id.to_def_id();
        match tcx.def_kind(did) {
            DefKind::Struct | DefKind::Enum | DefKind::Union => {}
            _ => continue,
        }
        let adt = tcx.adt_def(did);
        let mut o = Obj::new();
        o.s("rec", "adt");
        o.s("key", &canon(tcx, did));
        o.s("pretty", &pretty(tcx, did));
        o.s("kind", &format!("{:?}", tcx.def_kind(did)));
        let (file, l0, _, _) = span_loc(tcx, tcx.def_span(did));
        o.s("file", &file);
        o.n("line", l0 as i128);
        let vs: Vec<String> = adt
            .variants()
            .iter()
            .map(|v| {
                let mut vo = Obj::new();
                vo.s("name", v.name.as_str());
                let fs: Vec<String> = v
                    .fields
                    .iter()
                    .map(|f| {
                        let mut fo = Obj::new();
                        fo.s("name", f.name.as_str());
                        let fty = tcx.type_of(f.did).instantiate_identity().skip_norm_wip();
                        fo.s("ty", &tys(fty));
                        fo.b("pub", f.vis.is_public());
                        fo.done()
                    })
                    .collect();
                vo.raw("fields", &arr(fs));
                vo.done()
            })
            .collect();
        o.raw("variants", &arr(vs));
        // Freeze (no interior mutability) for non-generic ADTs
        let generics = tcx.generics_of(did);
        if generics.count() == 0 {
            let t = tcx.type_of(did).instantiate_identity().skip_norm_wip();
            let env = ty::TypingEnv::post_analysis(tcx, did);
            o.b("freeze", t.is_freeze(tcx, env));
        }
        out.push_str(&o.done());
        out.push('\n');
        n += 1;
    }
    n
}

fn dump_impls<'tcx>(tcx: TyCtxt<'tcx>, out: &mut String) {
    // trait impls: which traits are implemented (incl. derives) for which self type
    for id in tcx.hir_crate_items(()).definitions() {
        let did = id.to_def_id();
        if let DefKind::Impl { of_trait: true } = tcx.def_kind(did) {
            let tr = tcx.impl_trait_ref(did).instantiate_identity().skip_norm_wip();
            let mut o = Obj::new();
            o.s("rec", "impl");
            o.s("key", &canon(tcx, did));
            o.s("trait", &canon(tcx, tr.def_id));
            let st = tcx.type_of(did).instantiate_identity().skip_norm_wip();
            o.s("self_ty", &tys(st));
            if let ty::Adt(adt, _) = st.kind() {
                o.s("self_adt", &canon(tcx, adt.did()));
            }
            o.b("derived", tcx.is_automatically_derived(did));
            out.push_str(&o.done());
            out.push('\n');
        }
    }
}

struct Cb {
    out_dir: String,
}

impl rustc_driver::Callbacks for Cb {
    fn after_analysis<'tcx>(
        &mut self,
        _compiler: &rustc_interface::interface::Compiler,
        tcx: TyCtxt<'tcx>,
    ) -> rustc_driver::Compilation {
        let t0 = std::time::Instant::now();
        let mut out = String::new();
        let nadt = dump_adts(tcx, &mut out);
        dump_impls(tcx, &mut out);
        let mut nbody = 0usize;
        for ldid in tcx.hir_body_owners() {
            if dump_body(tcx, ldid.to_def_id(), &mut out) {
                nbody += 1;
            }
        }
        let crate_name = tcx.crate_name(LOCAL_CRATE).to_string();
        let pkg = std::env::var("CARGO_PKG_NAME").unwrap_or_else(|_| "nopkg".into());
        let crate_types: Vec<String> = tcx.crate_types().iter().map(|c| format!("{:?}", c)).collect();
        let is_test = tcx.sess.opts.test;
        let kind = if is_test {
            "test".to_string()
        } else if crate_types.iter().any(|c| c == "Executable") {
            "bin".to_string()
        } else {
            "lib".to_string()
        };
        let mut m = Obj::new();
        m.s("rec", "meta");
        m.s("crate", &crate_name);
        m.s("pkg", &pkg);
        m.s("kind", &kind);
        m.n("bodies", nbody as i128);
        m.n("adts", nadt as i128);
        m.n("ms", t0.elapsed().as_millis() as i128);
        let mut full = m.done();
        full.push('\n');
        full.push_str(&out);
        let path = format!("{}/{}__{}__{}.jsonl", self.out_dir, pkg, crate_name, kind);
        let tmp = format!("{}.tmp{}", path, std::process::id());
        std::fs::write(&tmp, full.as_bytes()).expect("kmir: cannot write facts");
        std::fs::rename(&tmp, &path).expect("kmir: cannot rename facts");
        rustc_driver::Compilation::Continue
    }
}

struct Plain;
impl rustc_driver::Callbacks for Plain {}

fn main() {
    let mut args: Vec<String> = std::env::args().collect();
    // RUSTC_WORKSPACE_WRAPPER: argv[1] is the real rustc path
    if args.len() > 1 && (args[1].ends_with("rustc") || args[1].contains("/rustc")) {
        args.remove(1);
    }
    let out_dir = std::env::var("KMIR_OUT").ok();
    // Only analyse real compilations of workspace members (cargo also probes with `-vV`, `--print`)
    let is_probe = args.iter().any(|a| a == "-vV" || a.starts_with("--print") || a == "-V" || a == "--version")
        || !args.iter().any(|a| a == "--crate-name");
    // build scripts are not analysed
    let is_build_script = args.windows(2).any(|w| w[0] == "--crate-name" && w[1].starts_with("build_script_"));
    match out_dir {
        Some(d) if !is_probe && !is_build_script => {
            let mut cb = Cb { out_dir: d };
            rustc_driver::run_compiler(&args, &mut cb);
        }
        _ => {
            let mut cb = Plain;
            rustc_driver::run_compiler(&args, &mut cb);
        }
    }
}

#!/usr/bin/env python3
"""Confirms seeded changes in ONE scratch git worktree of /repo (outside /repo and /verif), sequentially, sharing one target dir:
for each seeded/<id>: (1) demo WITHOUT the change must pass, (2) demo WITH the change must fail, (3) the repository's own suite
WITH the change must be green apart from the baseline's always_fail test.  Writes seeded/<id>/confirm.json.  The worktree and its
build output are removed at the end.   usage: tools/confirm_batch.py [ids...]   (development tool; not part of any check)"""
import json
import os
import re
import shutil
import subprocess
import sys
import time

VERIF = os.path.dirname(os.path.dirname(os.path.abspath(__file__)))
WT = os.environ.get("CONFIRM_WT", "/tmp/wt/confirm")
TGT = WT + "-target"
ALWAYS_FAIL = {"rsp_ql_dstream_semantics"}
JOBS = os.environ.get("CONFIRM_JOBS", "8")


def sh(cmd, cwd=WT, timeout=3600):
    env = dict(os.environ, CARGO_TARGET_DIR=TGT, CARGO_NET_OFFLINE="true")
    r = subprocess.run(cmd, cwd=cwd, env=env, shell=True, capture_output=True, text=True, timeout=timeout)
    return r.returncode, r.stdout + r.stderr


def demo_place(sid):
    d = os.path.join(VERIF, "seeded", sid)
    demo = [f for f in os.listdir(d) if f.startswith("seeded_demo") and f.endswith(".rs")][0]
    txt = ""
    for f in ("agent_notes.md", "meta.json"):
        p = os.path.join(d, f)
        if os.path.exists(p):
            txt += open(p).read()
    m = re.findall(r"(kolibrie|datalog|shared|ml)/tests/(seeded_demo[a-z_0-9]*)\.rs", txt)
    crate, name = m[0] if m else ("kolibrie", demo[:-3])
    return os.path.join(d, demo), crate, name


def results(out):
    passed = len(re.findall(r"^test .* \.\.\. ok$", out, re.M))
    failed = sorted(set(re.findall(r"^test (\S+) \.\.\. FAILED$", out, re.M)))
    return passed, failed


def main():
    ids = sys.argv[1:] or sorted(os.listdir(os.path.join(VERIF, "seeded")))
    os.makedirs("/tmp/wt", exist_ok=True)
    if not os.path.isdir(WT):
        subprocess.check_call(["git", "-C", "/repo", "worktree", "add", "--detach", WT, "HEAD"])
    try:
        for sid in ids:
            t0 = time.time()
            src, crate, name = demo_place(sid)
            dst = os.path.join(WT, crate, "tests", name + ".rs")
            patch = os.path.join(VERIF, "seeded", sid, "patch.diff")
            sh("git checkout -- . && git clean -fdq -e _out")
            os.makedirs(os.path.dirname(dst), exist_ok=True)
            shutil.copy(src, dst)
            spec = "-p %s --test %s" % (crate, name)
            rec = {"id": sid, "demo_cmd": "cargo test --offline %s" % spec, "head": subprocess.check_output(["git", "-C", WT, "rev-parse", "--short", "HEAD"], text=True).strip()}
            rc, out = sh("cargo test --offline -j %s %s" % (JOBS, spec))
            p, f = results(out)
            rec["demo_without_change"] = {"rc": rc, "passed": p, "failed": f}
            rc, out = sh("git apply --whitespace=nowarn %s" % patch)
            if rc != 0:
                rec["error"] = "patch does not apply: " + out[-300:]
                json.dump(rec, open(os.path.join(VERIF, "seeded", sid, "confirm.json"), "w"), indent=1)
                print(sid, "PATCH-DOES-NOT-APPLY", flush=True)
                continue
            rc, out = sh("cargo test --offline -j %s %s" % (JOBS, spec))
            p, f = results(out)
            rec["demo_with_change"] = {"rc": rc, "passed": p, "failed": f, "compiled": "error: could not compile" not in out}
            rc, out = sh("cargo test --workspace --offline --no-fail-fast --lib --bins --tests -j %s" % JOBS, timeout=7200)
            p, f = results(out)
            other = [x for x in f if x.split("::")[-1] not in ALWAYS_FAIL and x not in rec["demo_with_change"]["failed"]]
            # sleep-timed tests of rsp_engine_test fail under machine load: re-run each such failure alone, up to three times
            retried = {}
            for t in list(other):
                for attempt in range(3):
                    rc2, out2 = sh("cargo test --offline -j %s -p kolibrie --test rsp_engine_test %s -- --exact" % (JOBS, t.split("::")[-1]))
                    p2, f2 = results(out2)
                    if rc2 == 0 and p2 >= 1:
                        retried[t] = "passed alone on attempt %d" % (attempt + 1)
                        other.remove(t)
                        break
            if retried:
                rec["flaky_retried"] = retried
            rec["suite_with_change"] = {"cmd": "cargo test --workspace --offline --no-fail-fast --lib --bins --tests", "rc": rc, "passed": p,
                                        "failed": f, "failed_other_than_demo_and_always_fail": other,
                                        "compiled": "error: could not compile" not in out}
            rec["confirmed"] = (rec["demo_without_change"]["rc"] == 0 and rec["demo_with_change"]["rc"] != 0
                                and rec["demo_with_change"]["compiled"] and len(rec["demo_with_change"]["failed"]) > 0
                                and rec["suite_with_change"]["compiled"] and not other)
            rec["wall_s"] = round(time.time() - t0)
            json.dump(rec, open(os.path.join(VERIF, "seeded", sid, "confirm.json"), "w"), indent=1)
            print(sid, "confirmed" if rec["confirmed"] else "NOT-CONFIRMED", json.dumps({k: rec[k] for k in ("demo_without_change", "demo_with_change")}),
                  "suite passed=%d other_failed=%s" % (p, other), "%ds" % rec["wall_s"], flush=True)
    finally:
        subprocess.call(["git", "-C", "/repo", "worktree", "remove", "--force", WT])
        shutil.rmtree(TGT, ignore_errors=True)


if __name__ == "__main__":
    main()

#!/bin/sh
# usage: tools/mkwt.sh <id>   -- scratch git worktree of /repo for a seeding sub-agent, with a warm private target dir
ID="$1"
mkdir -p /tmp/wt
git -C /repo worktree add --detach /tmp/wt/$ID HEAD >/dev/null 2>&1 || exit 1
mkdir -p /tmp/wt/$ID/_out
cp /tmp/seedprops/$(echo $ID | cut -c1-3).json /tmp/wt/$ID/_out/PROPERTY.json
cp -r /repo/target /tmp/wt/$ID-target 2>/dev/null
echo "/tmp/wt/$ID ready"

#!/usr/bin/env python3
"""Writes / refreshes seeded/<id>/meta.json: what each seeded change is, what it needs to manifest, how it was confirmed
(taken from seeded/<id>/confirm.json, written by tools/confirm_batch.py) and which check catches it.  Entries written by the
older tools/seedmeta.py are kept; only their `confirmed` block is refreshed from confirm.json.   usage: tools/seedmeta2.py"""
import json
import os

VERIF = os.path.dirname(os.path.dirname(os.path.abspath(__file__)))
SRC = "sub-agent seed%s (given only the property text and a scratch git worktree of /repo; nothing from /verif)"

T = {
    "C08a": ("C08", "enumerate_proofs maintains a search state's upper_bound incrementally (`upper_bound *= p`) without checking whether the seed "
                    "was already in the partial proof; a seed reached twice on one path is squared, the bound is no longer an upper bound",
             "lineage in which one seed is shared across conjuncts through disjunctions, the top-k cap hit while the mis-weighted state is still in "
             "the frontier, and a threshold between the under-counted and the true upper bound",
             "C08-R4 (the bound stored in a search state is the weight of its proof set)", "missed by C08-R1..R3; C08-R4 added"),
    "C13a": ("C13", "parse_ntriples splits documents of more than 1000 lines into one slice of `len / workers` lines per rayon worker; the last "
                    "`len % workers` lines are in no slice",
             "an N-Triples document of more than 1000 lines whose length is not a multiple of the thread count",
             "C13-R3 (document coverage: the slices handed to the workers come from the document only through element-preserving steps)",
             "missed by C13-R1/R2; C13-R3 added"),
    "C15a": ("C15", "reencode_term_id gets a fast path for quoted triples: if the target store holds the same component tuple under the same id and the "
                    "components are `shared` (shallow, numeric comparison for nested quoted components) the id is kept",
             "nested quoted triples (two deep) in the other database, numerically identical component tuples in both stores, lexically different plain terms",
             "C15-R5 (translation provenance of reencode_term_id)", "missed by C15-R1..R4; C15-R5 added"),
    "C16a": ("C16", "sparql_blank_node scans with char_indices and sets token_end = offset + 1 instead of + len_utf8()",
             "a blank-node label whose last name character is multi-byte", "C16-R1 (T-CERT: the slice offset has no boundary certificate)", None),
    "C17a": ("C17", "check_missing_triple_separator takes the last 10 bytes of the text before the error offset instead of the last 10 characters",
             "a malformed request that reaches this heuristic with multi-byte text within 10 bytes of the error position",
             "C17-R2 (T-CERT over the error-rendering layer)", None),
    "C18a": ("C18", "the reserved-name set handed to rename_rule_variables no longer contains the variables occurring inside binding values",
             "a goal variable named like an engine-generated name (vN) that is reached by the shared counter at depth >= 1 while still unbound",
             "C18-R1 (the avoided names cover binding values)", "missed by the first C18-R1; sub-clause added"),
    "C19a": ("C19", "compute_repairs expands an inconsistent candidate only while it is larger than the largest repair found so far",
             "maximal repairs of different cardinalities (a star-shaped conflict) and an unlucky hash iteration order",
             "C19-R5 (search completeness: no pruning by size)", "missed by C19-R1..R4; C19-R5 added"),
    "C01b": ("C01", "scan_query_default skips the seen-set (duplicate suppression of the merged default graph) for fully bound probes",
             "two or more FROM graphs holding the same triple and a scan that arrives fully bound (ground pattern, or bind/star join)",
             "C01-R8 (duplicate elimination is total)", "missed by C01-R1..R7; C01-R8 added"),
    "C02b": ("C02", "execute_bind_join drains the left rows into exactly `threads` batches of `len / threads` rows; the remainder rows are dropped",
             "a bind join with at least 64*T left rows, T >= 2 threads and len % T != 0",
             "C02-R7 (parallel execution sees its whole input)", "missed by C02-R1..R6; C02-R7 added"),
    "C03b": ("C03", "instantiate_templates skips WHERE solutions whose projection on the template's variables was already seen",
             "an INSERT template with a blank node and two solutions that agree on the template's variables",
             "C03-R7 (every solution instantiates every template)", "missed by C03-R1..R6; C03-R7 added"),
    "C05b": ("C05", "the hash-join helper calls bind_predicate before inserting the subject/object bindings of the matched triple",
             "a premise that repeats its predicate variable in subject or object position while that variable is still unbound",
             "C05-R7 (match-or-bind is the last write to a binding row)", "missed by C05-R1..R6; C05-R7 added"),
    "C07b": ("C07", "wmc_gradient computes the derivative of an independent variable as (a_v - base) / (1 - p)",
             "a seed with probability exactly 1 (or explicit weights with neg != 1 - pos)",
             "C07-R6 (no unguarded division in model counting)", "missed by C07-R1..R4; C07-R5/R6 added"),
    "C10b": ("C10", "the window processor calls store.materialize() only when the current window loaded at least one triple",
             "rules registered, a non-empty firing directly followed by an empty-window firing",
             "C10-R2 (materialize always precedes execute_query)", None),
    "C04b": ("C04", "delete_quad registers the quad's graph in the named-graph catalog before the membership test instead of after it",
             "a delete of an absent quad whose graph does not exist (never created, or already dropped), followed by a look at the catalog",
             "C04-R6 (a delete that removes nothing changes nothing)", "missed by C04-R1..R5; C04-R6 added"),
    "C08b": ("C08", "retained_proof_wmc returns Ok with the count of the proofs compiled so far when the deadline expires after the first proof",
             "the top-k deadline expiring at a clock reading inside retained_proof_wmc, after the first clause, while uncompiled proofs still carry mass",
             "C08-R5 (budget failures propagate below the controller)", "missed by C08-R1..R4; C08-R5 added"),
    "C09b": ("C09", "add_to_window rewritten to update windows in place; the `open <= t` half of the membership test is gone",
             "width < slide and an item in the gap before the next window opens",
             "C09-R2 (membership is exactly open <= t < close; active windows replaced once)", None),
    "C11b": ("C11", "add_to_stream / add_probabilistic_to_stream compare streams by the text after the last `/` or `#` of the IRI",
             "two different stream IRIs with the same last segment", "C11-R5 (stream routing compares whole identifiers)",
             "missed by C11-R1..R4; C11-R5 added"),
    "C12b": ("C12", "the split into carried and new/renewed facts tests `old expiry != new expiry` instead of `old < new`",
             "a fact that is both streamed and derived with a longer expiry, at a second evaluation",
             "C12-R1 (renewal re-seeds a fact iff its new expiry is later)", None),
    "C13b": ("C13", "parse_turtle caches the cleaned, prefix-expanded form of subject/predicate tokens per call; the cache is not invalidated when a "
                    "@prefix line rebinds a label",
             "one parse_turtle call on a document that binds the same prefix label twice (e.g. concatenated files) and reuses a token after the rebinding",
             "C13-R4 (memoised term resolution is keyed on everything it depends on)", "missed by C13-R1..R3; C13-R4 added"),
    "C14b": ("C14", "decode_ntriples_literal locates the closing quote first with a one-character look-behind for a backslash",
             "a literal whose value ends with a backslash", "C14-R4 (escape-aware termination in one scanner)", "missed by C14-R1..R3; C14-R4 added"),
    "C15b": ("C15", "Dictionary::decode_term threads a set of expanded quoted ids through the recursion and returns None on a repeat; the set is "
                    "never reduced, so it tracks the whole call rather than the current path",
             "one term that contains the same quoted triple twice", "C15-R6 (decoding is a function of the identifier and the stores alone)",
             "missed by C15-R1..R5; C15-R6 added"),
    "C17b": ("C17", "execute_sparql_query decides `update` by the first keyword after the prologue and then runs the shared executor",
             "an update that follows a Kolibrie extension clause (RULE ... / ML.PREDICT ...) sent through the query-only entry point",
             "C17-R1 (a dataset mutator is reachable from the query-only entry point)", None),
    "C18b": ("C18", "the fact-matching step of backward chaining looks facts up by the goal's constants and binds the remaining variables with plain inserts",
             "a pattern with the same unbound variable in two positions and a fact with different values there",
             "C18-R6 (bindings are made by unification only)", "missed by C18-R1..R5; C18-R6 added"),
    "C19b": ("C19", "the consistency test before adding a derived fact joins the constraints with only the candidate as delta against the set WITHOUT the candidate",
             "a derived fact that fills two premises of one constraint at once (e.g. a reflexive fact and an asymmetry constraint)",
             "C19-R4 (the insertion is guarded by violates_constraints on all facts + candidate)", None),
    "C06a": ("C06", "the provenance round pre-fills a `queued` set with the round's delta and uses it to gate the re-queuing of improved facts",
             "a fact that gets a second derivation one round after its first while a consumer rule was evaluated earlier in that round",
             "C06-R3 / C12-R3 (an improved fact is queued without a further condition)", None),
    "C01c": ("C01", "execute_select truncates the id-level solution rows to LIMIT before decoding when there is no ORDER BY, DISTINCT or GROUP BY - "
                    "but an aggregate without GROUP BY (implicit group) is not ruled out",
             "a top-level SELECT with SUM/AVG/MIN/MAX, no GROUP BY, and LIMIT n smaller than the number of solutions",
             "C01-R15 (the solution sequence is cut only by the finalizers, or under a guard that consults every modifier)", "missed by C01-R1..R14; C01-R15 added"),
    "C02c": ("C02", "the three star-query branches of find_best_plan_recursive are folded into a helper that memoises the star plan, already wrapped "
                    "in the FILTER, under the key of the bare join group",
             "the same star group twice in one query (UNION branches / subquery), the filtered occurrence planned first",
             "C02-R10 (the plan memo stores only plans computed from the keyed node)", "missed by C02-R1..R9; C02-R10 added"),
    "C03c": ("C03", "allocate_blank_node treats a generated label as free unless the node still occurs in the DEFAULT graph (DatasetIndex::query)",
             "a stored blank node with an allocator-shaped label that occurs only in named graphs", "C03-R4 (the generated label is checked against the dictionary)", None),
    "C04c": ("C04", "query_named_graphs takes its candidate graphs from the caller's visible set (filtered by graph_exists) instead of the catalog",
             "a visible set that contains GraphId::Default and a not fully bound pattern", "C04-R7 (the across-named-graphs reader never reads the default graph)",
             "missed by C04-R1..R6; C04-R7 added"),
    "C05c": ("C05", "the both-bound bucket of the rule join's hash table keeps one partial binding per (subject, object) key",
             "a premise whose subject and object are already bound, with two partial bindings that agree on them and differ in another variable",
             "C05-R9 (the rule join keeps every partial binding)", "missed by C05-R1..R8; C05-R9 added"),
    "C07c": ("C07", "apply_inner / try_apply_inner get a literal-literal fast path that assembles the two-element decision node directly with the raw "
                    "constructor, choosing prime and sub by variable number instead of vtree position",
             "variables registered in non-ascending numeric order, a literal-literal apply on such a pair, and a further operation that meets one of the variables again",
             "C07-R8 (decision nodes are built only through the canonicalising path)", "missed by C07-R1..R7 (both twins changed alike); C07-R8 added"),
    "C08c": ("C08", "enumerate_proofs drops a search state when the same Or node was already branched on with an identical partial proof - the key ignores the "
                    "state's remaining conjuncts",
             "a hash-consed disjunction shared by two conjunctions and reached with the same partial proof but different pending conjuncts",
             "C08-R6 (a seen-set that filters search states is keyed on the whole state)", "missed by C08-R1..R5; C08-R6 added"),
    "C09c": ("C09", "CSPARQLWindow::flush drains active_windows instead of reading them",
             "a flush in the middle of a stream followed by items that fall into an interval that was already open", "C09-R7 (who may change the open windows)",
             "missed by C09-R1..R6; C09-R7 added"),
    "C10c": ("C10", "SimpleR2R::add evicts last cycle's derived triples before the first item is loaded; materialize no longer evicts them",
             "rules registered and a non-empty firing followed by an empty-window firing", "C10-R3 (the materialiser evicts and clears its record before reading the store)", None),
    "C11c": ("C11", "the coordinator's drain loop files a drained result's raw content under the window IRI of the first result",
             "multi-thread mode with cross-window rules and a second window's result pending when the coordinator wakes",
             "C11-R6 (per-window bookkeeping is keyed by the result's own window)", "missed by C11-R1..R5; C11-R6 added"),
    "C12c": ("C12", "incremental_sds_plus loads only facts whose predicate occurs in some rule body into the reasoner and passes the others through",
             "an alive fact with a head-only predicate that is re-derived later with a shorter expiry",
             "C12-R9 (every alive fact is known to the reasoner)", "missed by C12-R1..R8; C12-R9 added"),
    "C13c": ("C13", "the N-Triples / N-Quads tokenizer's language-tag loop accepts ASCII letters and '-' only (digits no longer)",
             "a language tag with a digit in a subtag (`@es-419`)", "C13-R6 (the language-tag class is the grammar's)", "missed by C13-R1..R5; C13-R6 added"),
    "C14c": ("C14", "generate_ntriples and generate_turtle write blank-node subjects and objects bare (`_:b1`), as generate_nquads does",
             "a blank node whose label contains a dot, exported with generate_turtle and re-imported with parse_turtle",
             "C14-R7 (the Turtle writer delimits what the Turtle tokenizer would split)", "missed by C14-R1..R6; C14-R7 added"),
    "C15c": ("C15", "Dictionary::encode split into lookup(&self) and insert_new(&mut self); encode_term_star looks up under the read lock and inserts under the "
                    "write lock without checking again",
             "two threads encoding the same previously unseen term through databases that share one dictionary", "C15-R1 (writer set of the dictionary fields)", None),
    "C16c": ("C16", "the filter expression parsers advance their cursor with sparql_skip_ws before testing for an operator, so the remainder they return has "
                    "already skipped blanks and comments; sparql_filter_comparison slices operand text up to that remainder",
             "a `#` comment directly after an operand of a FILTER comparison", "C16-R6 (measured recognisers stop where their token stops)",
             "missed by C16-R1..R5; C16-R6 added"),
    "C17c": ("C17", "build_dataset_view calls create_graph for every FROM NAMED <iri>", "a SELECT with FROM NAMED naming a graph the store does not have",
             "C17-R1 (a dataset mutator is reachable from the query-only entry point)", None),
    "C18c": ("C18", "every call of the chaining helper starts its own fresh-name counter at 0 instead of threading one counter through the search",
             "a rule with a body-only variable introduced in a later premise, an earlier premise derived through a nested (recursive) rule application",
             "C18-R7 (one fresh-name counter for the whole search)", "missed by C18-R1..R6; C18-R7 added"),
    "C19c": ("C19", "compute_repairs searches only the facts that hit a constraint in a predicate-only RuleIndex lookup and adds the rest to every repair",
             "a constraint with a variable in predicate position", "C19-R8 (the repair search ranges over all facts)", "missed by C19-R1..R7; C19-R8 added"),
    # ---- batch d (after the probe round; agents were told every earlier mechanism and the generic families to avoid)
    "C01d": ("C01", "Condition::logical_and evaluates its right operand only when the left one is true: `error && false` is an error instead of false",
             "a FILTER with a negated conjunction whose left operand raises an error (unbound variable, number vs non-number) and whose right operand is false",
             "C01-R17 (a three-valued connective returns without consulting its right operand only when the left one decides)", "missed by C01-R1..R19; C01-R17 (c) added"),
    "C02d": ("C02", "the planner replaces `GRAPH <iri> { .. }` by an empty VALUES when the cost estimator's cached statistics do not list the graph",
             "statistics cached by an earlier query, then a named graph created through an API that does not invalidate them, then a query on that graph",
             "C02-R11 (no candidate plan drops a sub-plan)", "missed by C02-R1..R10; C02-R11 added"),
    "C03d": ("C03", "DatasetIndex::delete_quad registers the quad's named graph in the catalog before testing whether the quad is stored",
             "a DELETE form naming a quad in a named graph that never existed", "C04-R6 (a delete that removes nothing writes nothing) - reported by the C04 check",
             "not reported by ./check C03 (the catalog discipline is a C04 rule); ./check C04 reports it", ["C04"]),
    "C04d": ("C04", "query_merged_graphs emits a triple only from its smallest owning graph, where the owners are taken over the whole index instead of the source graphs",
             "the same triple in two graphs and a merge over sources that include one owner but not the smallest one",
             "C04-R8 (the merged read path drops an element only as a duplicate and reads the index only through query_graph on its sources)", "missed by C04-R1..R7; C04-R8 added"),
    "C05d": ("C05", "matches_rule_pattern collects new bindings on the side and commits them after all three positions matched: a variable repeated inside one pattern is never compared with itself",
             "the parallel strategy (or constraints) with a premise like `?V rel ?V`, the variable still unbound, and a fact with subject != object",
             "C05-R11 (match-or-bind sees its own earlier bindings)", "missed by C05-R1..R10; C05-R11 added"),
    "C06d": ("C06", "shannon_wmc returns a noisy-OR closed form when the proofs are pairwise disjoint as sets of signed literals - (x,true) and (x,false) count as unrelated",
             "DNF mode, a rule with negation, one uncertain input positive in one proof and negated in another proof of the same fact",
             "C06-R8 (the exact model counter has no shortcut)", "missed by C06-R1..R7; C06-R8 added"),
    "C07d": ("C07", "try_apply encodes the operator in the apply-cache key as `(op == And) as u8` while apply uses `op as u8`: the twins read each other's entries for the opposite operator",
             "one manager used through both the plain and the budgeted API, the same operand pair combined with AND by one and OR by the other",
             "C07-R9 (twins address the shared caches alike)", "missed by C07-R1..R8; C07-R9 added"),
    "C08d": ("C08", "when the adaptive top-k loop gives up, a shortcut certifies NoAlert from `wmc + marginal_gain + frontier`, but marginal_gain falls back to 0 when the probe's count ran out of budget",
             "monotone lineage with more proofs than k, the top-k deadline expiring inside the probe's model count, wmc + frontier < threshold <= truth",
             "C08-R2 / C08-R5 (NoAlert is controlled by the published interval's upper bound; a budget failure never reaches a certified result)", None),
    "C09d": ("C09", "scope() computes the first window's open as ceil((|t - t0| - width) / slide) * slide: the slide grid anchors opens instead of closes",
             "a width that is not a multiple of the slide", "C09-R4 (the first opened interval closes at the slide boundary at/after the event)", None),
    "C10d": ("C10", "a new helper canonical_row sorts a row's (variable, value) pairs by value; both row-canonicalisation sites use it",
             "ISTREAM / DSTREAM, a row that binds two variables to the same term and stays in the window for two firings",
             "C10-R8 (a row has one canonical form: sorted by a key unique within the row)", "missed by C10-R1..R7; C10-R8 added"),
    "C11d": ("C11", "execute_window_plans_on_external_buckets reuses one scratch database for all windows and clears it only when the window has a bucket this round",
             "cross-window rules enabled, a window without a bucket in the round listed after one with a bucket, shared vocabulary",
             "C11-R3 (the external-bucket path builds a fresh database inside the per-window loop)", None),
    "C12d": ("C12", "find_premise_solutions_with_triples takes (delta_facts, all_facts) but its caller still passes (all_facts, effective_delta): both are &[Triple]",
             "a rule with three or more premises and a history in which only one premise of a derivation is new at some evaluation",
             "C12-R10 (delta and total keep their roles across the call)", "missed by C12-R1..R9 (and by the C05 / C06 checks); C12-R10 added"),
    "C13d": ("C13", "parse_turtle strips trailing `# comment`s with a scanner that decides whether a quote is escaped by looking at the previous character",
             "one Turtle line with a literal that ends in an escaped backslash followed by a later literal containing `#`",
             "C13-R10 (escapes are tracked by state, not by looking back)", "missed by C13-R1..R9; C13-R10 added"),
    "C14d": ("C14", "generate_turtle writes IRIs as prefix:local under a declared prefix, allowing `.` inside the local name; the line tokenizer cuts undelimited text at `.`",
             "a declared prefix and an IRI in that namespace with an inner dot (`report.pdf`)",
             "C14-R7 (an undelimited format placeholder is written only after excluding `.`, `,` and `;`)", "missed by C14-R1..R7 as they were; C14-R7 extended to format templates in helper closures"),
    "C15d": ("C15", "reencode_term_id (union) passes the already-clean lexical form through the surface-syntax cleaner again",
             "the other database holds a term that starts with `<` and ends with `>`, has surrounding blanks, or starts with a quote",
             "C15-R5 (the translated id comes only from the cache, Dictionary::encode(decoded term) or QuotedTripleStore::encode)", None),
    "C16d": ("C16", "SparqlNestingGuard::enter builds the guard only after the charge succeeded: a failed charge is never refunded and the thread-local counter keeps it",
             "more than 128 nested groups / quoted triples (rejected), then further parses on the same thread",
             "C16-R9 (a charge that fails is refunded)", "missed by C16-R1..R8; C16-R9 added"),
    "C17d": ("C17", "format_parse_error locates the error slice with nom's Offset (address subtraction) instead of the length difference",
             "a malformed request that ends inside a `#` comment without a line break (sparql_skip_ws then reports the static \"\")",
             "C17-R2 (certificates: `Offset::offset` needs the second slice to be derived from the first)", "missed by C17-R1..R4; the certificate analysis now treats Offset::offset as panic-capable"),
    "C18d": ("C18", "backward_chaining restricts each answer to the goal's variables before flattening variable chains against the restricted map",
             "a rule whose head repeats a variable, reached at depth >= 1 through a join on a fresh body variable",
             "C18-R6 (substitutions are written only by unification)", None),
    "C19d": ("C19", "query_with_repairs seeds its candidates from the smallest repair but still skips repair 0 when filtering",
             "maximal repairs of different sizes, the smallest not discovered first, a query matching a fact only the smallest repair has",
             "C19-R2 (candidates are seeded from the first repair; only the seeding repair is skipped)", None),
    # ---- batch e
    "C01e": ("C01", "build_dataset_view: a query with FROM but no FROM NAMED sees every catalogued named graph instead of none",
             "at least one FROM, no FROM NAMED, and a GRAPH pattern matching an existing named graph",
             "C01-R20 (a dataset clause replaces the dataset)", "missed by C01-R1..R19; C01-R20 added"),
    "C02e": ("C02", "the hash-join and nested-loop executors evaluate their right operand from the incoming solutions as well: (I x L) x (I x R)",
             "a join executed by the hash / nested-loop executor below a bind join, with two mutually compatible incoming rows",
             "C02-R12 (the incoming solutions enter a join once)", "missed by C02-R1..R11; C02-R12 added"),
    "C03e": ("C03", "execute_modify applies the deletions before the INSERT template is expanded: the legality checks of the insert see the dataset after the delete",
             "a DELETE/INSERT whose INSERT subject or predicate is a variable bound to a relative IRI that the same operation deletes everywhere",
             "C03-R1 / R3 (no evaluation or instantiation follows the mutation; no Err exit after the first mutation)", None),
    "C04e": ("C04", "create_graph also inserts an empty gspo entry for the graph; drop_graph removes the catalog entry only, the legacy readers treat every gspo key as an existing graph",
             "create_graph(g) followed by drop_graph(g) without any insert into g", "C04-R1 (exactly one inserting writer of the quad indexes)", None),
    "C05e": ("C05", "evaluate_filters looks the filter's constant up in the dictionary and compares by id when it is a term of the fact base",
             "a numeric threshold that also occurs, spelled the same, as a term (ordering operators then pass unchecked on the tree before 3fa2230; after it `18` = `18.0` fails)",
             "C05-R12 (accept only after all operators were excluded; ids are compared only when both come from the bindings)",
             "missed by C05-R1..R11; C05-R12 added - which also reported two genuine defects of the unchanged evaluator (finding 36, fixed by 3fa2230); the seed was rebased onto the fix (patch_at_4df4700.diff is the original)"),
    "C06e": ("C06", "DnfWmcProvenance::is_saturated compares the number of proofs instead of the formulas",
             "DNF mode, a longer proof recorded before a shorter one that subsumes it", "C06-R9 (saturation compares whole tags)", "missed by C06-R1..R8; C06-R9 added"),
    "C07e": ("C07", "var_to_vtree becomes a Vec indexed by variable id with 0 meaning `no leaf yet`, while the first leaf ever allocated has id 0",
             "the first-introduced variable is registered again and then combined with an older diagram",
             "C07-R10 (absence is not encoded by a value the allocator hands out)", "missed by C07-R1..R9; C07-R10 added"),
    "C08e": ("C08", "the lineage compiler registers exclusive groups as wholes and then calls ensure_variable on every referenced seed, which resets exclusive choices to independent variables",
             "a snapshot with an exclusive group and a lineage with a model in which a referenced choice is false",
             "C08-R7 (a choice of an exclusive group is never registered as independent)", "missed by C08-R1..R6; C08-R7 added"),
    "C09e": ("C09", "a same-instant fast path appends items stamped `app_time` to every active window in place and returns before the membership test and eviction",
             "two items stamped exactly on a window close followed by an item before the next close", "C09-R7 (writer set of active_windows)", None),
    "C10e": ("C10", "the window processor maintains the store incrementally per occurrence while content and store keep one entry per triple: evicting the older occurrence removes the only copy",
             "the same triple twice in the stream with a firing in between, overlapping windows", "C10-R3 / R4 (eviction bookkeeping: everything loaded is recorded)", None),
    "C11e": ("C11", "parse_rsp_ql_query resolves each window's WINDOW block with one iterator shared by all declarations: `find` continues after the previous match",
             "WINDOW blocks written in another order than the FROM NAMED WINDOW declarations: the window whose block was passed runs `?s ?p ?o` over the shared store",
             "C11-R7 (the block search starts from the complete list for each window)", "missed by C11-R1..R6; C11-R7 added"),
    "C12e": ("C12", "incremental_sds_plus carries an entry of a window component over only if the triple is still listed as a base fact of the SDS",
             "a rule concluding into a window-annotated predicate whose premises are all carried over (no new delta)",
             "C12-R11 (the carried-over facts are filtered by expiry only)", "missed by C12-R1..R10; C12-R11 added"),
    "C13e": ("C13", "resolve_query_term separates prefix label and local name with rsplit_once(':') instead of splitn(2, ':')",
             "a prefixed name whose local part contains a colon (`dbr:Category:Physics`)",
             "C13-R11 (the prefix expander cuts at the first colon)", "missed by C13-R1..R10; C13-R11 added"),
    "C14e": ("C14", "looks_like_absolute_iri checks the scheme with one `all(..)` over its bytes: vacuously true for the empty scheme",
             "an object literal that starts with `:` and contains `>`, a line break or a trailing backslash",
             "C14-R8 (the IRI guess requires a first scheme character)", "missed by C14-R1..R7; C14-R8 added"),
    "C15e": ("C15", "SparqlDatabase::union re-encodes the other side's quoted triples in place into this database's store and shares that store with the result, while the dictionary is cloned",
             "a union of two databases with quoted triples, then decoding through the operand or encoding a new quoted triple on either side",
             "C15-R (all re-encodings target one dictionary and one quoted store)", None),
    "C16e": ("C16", "sparql_skip_ws takes the comment body as `comment.lines().next()`: a lone carriage return no longer ends a comment",
             "a `#` comment closed by CR alone, followed by query text or by trailing garbage",
             "C16-R10 (a comment runs to the first CR or LF)", "first caught only because the slice `&comment[line.len()..]` had no certificate (C16-R1) - the wrong reason: the slice is safe. "
             "The prover now proves lengths of first pieces / prefixes, and C16-R10 reports the terminator set"),
    "C17e": ("C17", "detect_specific_sparql_error hands check_missing_prefix the lower-cased copy of the request together with an offset clamped against the original text",
             "a character whose lower-case form has another UTF-8 length (U+212A, U+0130 ...) before the error position",
             "C17-R2 (certificates: the (text, offset) pair every caller passes is a certified pair)", None),
    "C18e": ("C18", "unify_patterns unifies in place and the rule loop of backward_chaining_helper re-uses the working copy after a conclusion failed to unify",
             "a rule with two conclusions where the first fails to unify after binding a variable the second needs free",
             "C18-R (the substitution starts as a clone of the caller's bindings; unify_patterns returns that substitution)", None),
    "C19e": ("C19", "compute_repairs replaces only the first kept set a new candidate supersedes instead of dropping all of them",
             "two kept consistent sets that are both strict subsets of a later candidate",
             "C19-R (admitting a candidate evicts every kept subset of it)", None),
    # ---- batch f
    "C01f": ("C01", "the group lowering applies a simple `?v op constant` FILTER at its lexical position when the plan so far `binds` ?v - with the variables of *all* UNION branches counted as bound",
             "a UNION where only one branch binds ?v, the FILTER written after it, and a later pattern of the same group that binds ?v",
             "C01-R (every member of a group is handled; selections for a group's own FILTERs are built only after all its other members were lowered)", None),
    "C02f": ("C02", "the seen-set of the merged default graph is allocated once per scan call (and only for several FROM graphs) instead of once per incoming row",
             "FROM <g1> FROM <g2>, a default-scoped pattern as the probe side of a bind / star join, two incoming rows reaching the same stored triple",
             "C02-R13 = C01-R21 (one seen-set per incoming row)", "missed by C02-R1..R12 and C01-R1..R20; rule added to both properties; C01-R8 learnt the optional-set idiom `(len > 1).then(HashSet::new)`"),
    "C03f": ("C03", "prepare_extensions registers the request's prologue into database.prefixes with entry().or_insert_with() and clones that map: a remembered label wins over the request's own PREFIX",
             "two requests on one database that bind one prefix label to different IRIs, the later one an update",
             "C03-R8 (an operation runs under its own prologue)", "missed by C03-R1..R7; C03-R8 added"),
    "C04f": ("C04", "a per-graph quad counter behind len_graph; create_graph seeds it with 0 unconditionally",
             "create_graph on a named graph that already holds quads (union() does that for every shared graph name)",
             "C04-R9 (creating a graph that exists is a no-op)", "first reported by C04-R1's closed field census (`graph_sizes` unknown): right to fail closed, but a correct counter would have been reported too. "
             "The census now accepts summary fields that every index writer updates, and C04-R9 reports the unconditional overwrite"),
    "C05f": ("C05", "semi-naive find_premise_solutions applies evaluate_filters after every join step (filter push-down); evaluate_filters compares a bound left variable with the *name* of an unbound right variable",
             "a variable-to-variable filter whose two variables are bound by different premises, at least two rounds",
             "C05-R13 (filters see complete bindings)", "missed by C05-R1..R12; C05-R13 added"),
    "C06f": ("C06", "the provenance round assigns `tag_changed = improved && !is_new` per merged derivation instead of setting it once",
             "a further proof of a known fact arrives in a round that derives no new fact and the last merge of that round does not improve",
             "C06-R3 (change flags are sticky)", "first reported by C06-R3 because the rule did not recognise `let improved = ..; if improved ..` as a test of the outcome (wrong reason: the benign spelling "
             "was reported too). The rule now follows the copy, and a new obligation requires the round's change flags to be only ever set to true inside its loops"),
    "C07f": ("C07", "apply_same_vtree / try_apply_same_vtree pair equal primes in one merge pass that relies on partitions sorted by prime; expand sorts the literal's synthetic partition, try_expand does not",
             "budgeted path, a bare literal of the polarity allocated second against a decision node rooted at that variable",
             "C07-R11 (twins order alike)", "missed by C07-R1..R10; C07-R11 added"),
    "C08f": ("C08", "the lineage compiler conjoins exactly-one over the group choices the lineage mentions instead of over the whole group",
             "a lineage that uses some but not all choices of an exclusive group and can be true with none of the mentioned ones selected",
             "C08-R8 (exactly one of the whole group)", "missed by C08-R1..R7; C08-R8 added (T-TAINT now carries stores through borrowed views such as map.entry(k).or_insert_with(f) to the owner)"),
    "C09f": ("C09", "Window bounds narrowed to u32 (`as u32` saturates); membership test moved into Window::contains",
             "timestamps of 2^32 and beyond", "C09-R8 (bounds are as wide as the clock)",
             "first reported by C09-R2 only because the membership comparisons had moved into a helper (wrong reason). C09-R2 now follows methods of Window; C09-R8 states the width assumption R3/R4 rely on"),
    "C10f": ("C10", "R2ROperator::add returns whether the triple was newly inserted and the window processor records only those for eviction",
             "a stream item equal to a fact derived in the previous firing (add makes it window content, nobody evicts it)",
             "C10-R3 (everything loaded is recorded, on every path)", "missed: C10-R3 accepted a push that the add merely dominates; it now requires the next turn of the load loop to be reachable only through the push"),
    "C11f": ("C11", "natural_join compares the values of a shared variable with a helper that also accepts two strings that parse to equal f64",
             "two windows (or a window and static data) bind a shared variable to lexically different literals that are equal as f64: `21` / `21.0`, two integers beyond 2^53",
             "C11-R3 (the comparison that decides compatibility is the identity of terms)", "first reported by C11-R3 only because the comparison had moved into a helper (wrong reason); the rule now follows "
             "the helper and requires it to be the identity"),
    "C12f": ("C12", "Provenance::is_saturated gets a default body that compares recover_probability images; ExpirationProvenance loses its exact `old == new` (u64 as f64)",
             "timestamps above 2^53 and a renewal that extends the expiry by less than the f64 spacing",
             "C12-R12 = C06-R9 (a default saturation test is a whole-tag comparison only for a one-to-one image)", "missed by C12-R1..R11; the C06 check fired through a floor on the number of "
             "implementations (wrong reason). C06-R9 now analyses the trait's default body and the implementors that rely on it; shared with C12 as C12-R12"),
    "C13f": ("C13", "decode_ntriples_literal treats every `\\uXXXX` escape >= 0xD800 as the high half of a surrogate pair (no upper bound)",
             "a literal that spells a character of U+E000..U+FFFF with a 4-digit escape", "C13-R12 (surrogate tests are closed ranges)", "missed by C13-R1..R11; C13-R12 added"),
    "C14f": ("C14", "generate_turtle writes integer-looking literals unquoted, through parse::<i64>().to_string()",
             "a literal such as `007`, `+32`, `-0`", "C14 (generate_turtle writes a term without delimiters only for quoted triples)", None),
    "C15f": ("C15", "Dictionary::merge recomputes next_id from the other dictionary's counter and entries and drops its own counter from the maximum",
             "the receiver holds more identifiers than the merged dictionary, then a new term is encoded", "C15-R7 (the identifier counter never moves backwards)", "missed by C15-R1..R6; C15-R7 added"),
    "C16f": ("C16", "the language-tag scanner of sparql_quoted_literal uses is_ascii_alphabetic for every subtag",
             "a language tag with a digit in a later subtag: `@es-419`, `@de-CH-1996`", "C16-R12 (subtags after the first admit digits)",
             "first reported by C16-R1 because the audited lemmas of sparql_quoted_literal are valid for its audited fingerprint only (any edit of that scanner is reported for re-audit: documented, "
             "deliberate, and not the reason this change is wrong); C16-R12 added"),
    "C17f": ("C17", "finalize_select pre-allocates its output with Vec::with_capacity(query.limit.unwrap_or(rows.len()))",
             "a SELECT with LIMIT 18446744073709551615", "C17-R5 (the request does not size allocations)", "missed by C17-R1..R4; C17-R5 added"),
    "C18f": ("C18", "the depth budget counts down from MAX_DEPTH to 0 instead of up from 0 to MAX_DEPTH inclusive: ten levels instead of eleven",
             "a derivation that nests exactly ten rule applications", "C18-R5 (levels allowed by the bound)", "first reported by C18-R5 `deeper` because the rule knew the `depth + k` shape only (wrong reason: the "
             "same refactoring with the root at MAX_DEPTH + 1 was reported too); the rule now computes the number of levels from root value, step and cut for both shapes"),
    "C19f": ("C19", "one scratch copy of the facts per rule pass; every candidate is inserted, tested and removed again - also when it was accepted",
             "one rule derives, in one round, two facts that are consistent one by one and complete a constraint body together",
             "C19-R4 (the tested set contains every fact accepted so far)", "missed by C19-R1..R8; C19-R4 strengthened"),
    "C16b": ("C16", "sparql_aggregate returns the slice matched by the case-insensitive keyword helper instead of the canonical literal",
             "an aggregate keyword not written in upper case", "C16-R4 (keyword text never reaches the tree)",
             "missed by C16-R1..R3 (C01-R1 fired only through a floor, for the wrong reason); C16-R4 added, C01-R1 reads constant tables"),
}


def confirmed_block(d):
    p = os.path.join(d, "confirm.json")
    if not os.path.exists(p):
        return None
    c = json.load(open(p))

    def r(x):
        return "rc=%s passed=%s failed=%s" % (x.get("rc"), x.get("passed"), x.get("failed"))
    return {
        "demo_cmd": c.get("demo_cmd"),
        "demo_with_change": r(c.get("demo_with_change", {})),
        "demo_without_change": r(c.get("demo_without_change", {})),
        "full_suite_with_change": "passed=%s, failed other than the demo and the baseline's always_fail test: %s" % (
            c.get("suite_with_change", {}).get("passed"), c.get("suite_with_change", {}).get("failed_other_than_demo_and_always_fail")),
        "confirmed": c.get("confirmed"),
        "by": "tools/confirm_batch.py in a scratch git worktree of /repo at %s (removed afterwards); suite = %s" % (
            c.get("head"), c.get("suite_with_change", {}).get("cmd")),
    }


def main():
    for sid in sorted(os.listdir(os.path.join(VERIF, "seeded"))):
        d = os.path.join(VERIF, "seeded", sid)
        mp = os.path.join(d, "meta.json")
        m = json.load(open(mp)) if os.path.exists(mp) else None
        if sid in T:
            prop, what, needs, det, hist = T[sid][:5]
            by_props = T[sid][5] if len(T[sid]) > 5 else [prop]
            demo = [f for f in os.listdir(d) if f.startswith("seeded_demo")][0]
            m = {"property": prop, "source": SRC % sid, "what": what, "needs_to_manifest": needs, "demo": demo,
                 "detected_by": "./check %s: %s; rc=1" % (by_props[0], det), "detected_by_props": by_props}
            if hist:
                m["history"] = "first run: " + hist
        if m is None:
            print("no table entry and no meta for", sid)
            continue
        cb = confirmed_block(d)
        if cb is not None:
            m["confirmed"] = cb
        with open(mp, "w") as f:
            json.dump(m, f, indent=1)
            f.write("\n")
        print(sid, "confirmed" if (cb or {}).get("confirmed") else ("unconfirmed: " + str((m.get("confirmed") or {}).get("confirmed"))))


if __name__ == "__main__":
    main()

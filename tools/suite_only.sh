#!/bin/sh
# usage: tools/suite_only.sh <worktree>...   -- runs the repository's test targets (lib/bins/tests, no examples) in each worktree, sequentially
for WT in "$@"; do
  cd "$WT" || continue
  OUT="$WT/_out/suite.txt"
  cargo test --workspace --offline --no-fail-fast --lib --bins --tests -j 8 > "$OUT.log" 2>&1
  echo "rc_suite=$?" > "$OUT"
  grep -E "^test .* FAILED$" "$OUT.log" | sort | uniq >> "$OUT"
  echo "passed=$(grep -c '\.\.\. ok$' "$OUT.log") failed=$(grep -c '\.\.\. FAILED$' "$OUT.log")" >> "$OUT"
  echo DONE >> "$OUT"
done

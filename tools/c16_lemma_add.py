#!/usr/bin/env python3
"""Add audited lemmas for C16/C17 certificate sites that the prover cannot discharge.
usage: tools/c16_lemma_add.py <spec.json>   spec: list of {fn, kind, contains, reason, depends:[fn paths], root}
Each open site whose key starts with `<fn>|<kind>|` and contains `contains` gets the lemma; fingerprints are taken from the
current tree (so run it only on an audited tree)."""
import json, os, sys, subprocess
V = os.path.dirname(os.path.dirname(os.path.abspath(__file__)))
sys.path.insert(0, os.path.join(V, "rules"))
from lib import facts as F
import c16
prog = F.load(os.path.join(V, ".work", "facts-q"))
spec = json.load(open(sys.argv[1]))
prop = sys.argv[2] if len(sys.argv) > 2 else "C16"
out = subprocess.run([os.path.join(V, "check"), prop, "-v", "--no-evidence"], capture_output=True, text=True).stdout
open_keys = []
for line in out.splitlines():
    line = line.strip()
    if line.startswith("violated") and "|cert:" in line:
        k = line.split("|cert:", 1)[1].split(" :: ", 1)[0]
        open_keys.append(k)
L = json.load(open(c16.LEMMAS)) if os.path.exists(c16.LEMMAS) else []
have = {e["key"] for e in L}
n = 0
for sp in spec:
    for k in open_keys:
        parts = k.split("|", 2)
        if parts[0] == sp["fn"] and parts[1] == sp["kind"] and sp.get("contains", "") in parts[2] and k not in have:
            root = sp.get("root") or ("parser::" + sp["fn"])
            e = {"key": k, "function": root, "fingerprint": c16.family_fingerprint(prog, root), "reason": sp["reason"],
                 "depends": [{"function": d, "fingerprint": c16.family_fingerprint(prog, d)} for d in sp.get("depends", [])]}
            assert e["fingerprint"], root
            L.append(e); have.add(k); n += 1
json.dump(L, open(c16.LEMMAS, "w"), indent=1)
print("added", n, "lemmas; total", len(L))

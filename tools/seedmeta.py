#!/usr/bin/env python3
"""Writes seeded/<id>/meta.json from the table below (one place to keep what each seeded change is, what it needs to manifest,
what was run to confirm it, and which check catches it).  usage: tools/seedmeta.py"""
import json
import os

VERIF = os.path.dirname(os.path.dirname(os.path.abspath(__file__)))
SRC = "sub-agent %s (given only the property text and a scratch git worktree of /repo; nothing from /verif)"
SUITE = "cargo test --workspace --offline --no-fail-fast --lib --bins --tests in the scratch worktree with the change applied"

M = {}


def seed(sid, prop, what, needs, demo, with_, without, suite, detected, props=None, first_missed=None):
    M[sid] = {
        "property": prop,
        "source": SRC % ("seed" + sid),
        "what": what,
        "needs_to_manifest": needs,
        "demo": demo,
        "confirmed": {
            "demo_with_change": with_,
            "demo_without_change": without,
            "full_suite_with_change": suite,
            "by": "tools/confirm_seed.sh / tools/suite_only.sh in scratch worktree /tmp/wt/%s (removed afterwards); suite = %s" % (sid, SUITE),
        },
        "detected_by": detected,
        "detected_by_props": props if props is not None else [prop],
    }
    if first_missed:
        M[sid]["history"] = first_missed


DSTREAM = "rsp_ql_dstream_semantics (always_fail in the baseline)"

seed("C01a", "C01",
     "serialize_logical_plan (the plan-memo key) gets a hand-written serializer for SubquerySpec that prints the ORDER BY variables "
     "but drops each SortDirection; two subqueries of one query that differ only in ASC/DESC share a memo entry and the second is "
     "answered with the first one's physical plan",
     "one query with two subqueries that have the same inner pattern, projection, DISTINCT, GROUP BY, ORDER BY variables and LIMIT, "
     "differ in ASC/DESC, and a LIMIT that really truncates",
     "seeded_demo.rs -> kolibrie/tests/seeded_demo.rs; cargo test --offline -p kolibrie --test seeded_demo",
     "FAILED", "ok", "PENDING",
     "./check C01 (C01-R7) and ./check C02 (C02-R1): the memo key does not cover element 1 (SortDirection) of the order_by tuples of "
     "SubquerySpec (taint from the field to a formatting sink is missing); rc=1",
     props=["C01", "C02"])

seed("C02a", "C02", None, None, None, None, None, None, None)  # written by hand earlier; kept as is
seed("C04a", "C04", None, None, None, None, None, None, None)  # written by hand earlier; kept as is

seed("C03a", "C03",
     "apply_mutations skips quads that occur in both the delete set and the insert set of one operation "
     "(deletions.difference(&insertions) / insertions.difference(&deletions)), on the reasoning 'removed and re-added stays stored'",
     "a DELETE/INSERT WHERE whose delete and insert templates instantiate to the same quad and that quad is not stored before the "
     "operation (then it must be stored afterwards, but is not; counts are wrong too)",
     "seeded_demo.rs -> kolibrie/tests/seeded_demo.rs; cargo test --offline -p kolibrie --test seeded_demo",
     "FAILED (0 passed, 2 failed)", "ok (2 passed)", "PENDING",
     "./check C03 (C03-R6 complete application): the iterator consumed at the delete/insert effect point is not iter() of the whole "
     "set (a `difference` adaptor sits between the set and the effect); rc=1",
     first_missed="first run: not detected by C03-R1..R5; C03-R6 was added because of this change")

seed("C05a", "C05",
     "semi-naive strategy: from round 2 on, find_premise_solutions skips delta position i when premise[i] has a constant predicate "
     "that no rule concludes *with a constant predicate*; predicates derivable only through a variable-predicate conclusion are "
     "wrongly treated as base-only",
     "a rule with a variable in the conclusion's predicate position, plus a rule premise over a constant predicate q that is only "
     "derivable through it, and the q-fact first appearing in a delta of round >= 2",
     "seeded_demo.rs -> datalog/tests/seeded_demo.rs; cargo test --offline -p datalog --test seeded_demo",
     "FAILED (0 passed, 2 failed)", "ok (2 passed)", "PENDING",
     "./check C05 (C05-R6 delta discipline): the join against the previous round's facts is skipped on some iterations of the "
     "premise-position loop (a `continue` guarded by a per-premise test precedes it); rc=1",
     first_missed="first run: not detected by C05-R1..R5; C05-R6 was added because of this change")

seed("C07a", "C07",
     "SddManager::try_unique_d publishes the unique-table entry (entry(key).or_insert(next id)) before budget.before_allocation()? "
     "and before the node is pushed; on exhaustion the table maps the key to an id that is not allocated (later given to another node)",
     "a budgeted operation that runs out (deadline or node budget) exactly at an allocation in try_unique_d, followed by further use "
     "of the same manager",
     "seeded_demo_c07.rs -> shared/tests/seeded_demo_c07.rs; cargo test --offline -p shared --test seeded_demo_c07",
     "FAILED (0 passed, 3 failed)", "ok (3 passed)", "PENDING",
     "./check C07 (C07-R2 publication after the last fallible step): in try_unique_d a fallible checkpoint is reachable after the "
     "unique-table insertion and before the node push; rc=1")

seed("C09a", "C09",
     "CSPARQLWindow::scope rewritten in integer arithmetic; the loop that opens windows now stops at "
     "c_max = floor(|t-t0|/slide)*slide + width instead of t + width",
     "width not a multiple of slide, an item in the last (width mod slide) ticks before a slide boundary, and the stream running on "
     "until that interval is reported (e.g. width 3, slide 2, items 0..4: [1,4) is reported without item 1)",
     "seeded_demo.rs -> kolibrie/tests/seeded_demo.rs; cargo test --offline -p kolibrie --test seeded_demo",
     "PENDING", "ok (3 passed)", "PENDING",
     "./check C09 (C09-R3 opening coverage): the exit of the opening loop is `close + slide - floor(..)*slide - width > 0`, which does "
     "not imply that the next interval starts after the event time; rc=1. The correct integer rewrite (bound t + width) is the benign "
     "twin selftest/C09/benign_scope_integer_arithmetic.diff and stays silent.",
     first_missed="first run: not detected (C09-R1/R2 do not look at scope()); C09-R3 with the loop linear-arithmetic view "
                  "(rules/lib/linloop.py) was added because of this change")

seed("C10a", "C10",
     "Relation2StreamOperator::eval, ISTREAM arm: early `return new_response` when the answer is empty, which skips "
     "`self.last_result = new_set`",
     "a firing with an empty answer between two firings that share a row: the row is new relative to the empty firing and must be "
     "emitted again, but is suppressed",
     "seeded_demo.rs -> kolibrie/tests/seeded_demo.rs; cargo test --offline -p kolibrie --test seeded_demo",
     "PENDING", "PENDING", "PENDING",
     "./check C10 (C10-R6 last-result memory): the ISTREAM arm has a path to its return that does not replace last_result; rc=1",
     first_missed="first run: not detected by C10-R1..R5; C10-R6 was added because of this change")

seed("C11a", "C11",
     "rsp_engine::natural_join replaced by a hash join on ONE shared variable (the smallest one of the first rows); the residual "
     "compatibility check on the other shared variables is gone and the right row overwrites the left row's values",
     "two windows (or window and static data) sharing two or more variables, with rows that agree on the smallest shared variable "
     "and disagree on another",
     "seeded_demo.rs -> kolibrie/tests/seeded_demo.rs; cargo test --offline -p kolibrie --test seeded_demo",
     "PENDING", "PENDING", "PENDING",
     "./check C11 (C11-R3 join compatibility): rows are merged without a comparison that ranges over every shared variable; rc=1",
     first_missed="first run: not detected by C11-R1/R2; C11-R3 was added because of this change")

seed("C12a", "C12",
     "ProvenanceSemiNaiveStrategy::infer_round re-queues a fact whose tag improved only if it is not already in this round's delta",
     "a fact that is in the round's delta and whose tag is raised again later in the same round, after a consumer already used the "
     "older tag (diamond-shaped renewal)",
     "seeded_demo_c12.rs -> datalog/tests/seeded_demo_c12.rs; cargo test --offline -p datalog --test seeded_demo_c12",
     "FAILED", "ok", "405 passed, 2 failed = " + DSTREAM + " + the demo test incremental_equals_naive_on_diamond_renewal",
     "./check C12 (C12-R3 re-trigger discipline): queuing of an improved fact is subject to a further condition; rc=1",
     first_missed="first run: not detected by C12-R1/R2; C12-R3 was added because of this change")

seed("C14a", "C14",
     "escape_ntriples_literal (used by generate_nquads) gets a byte-wise slow path that pushes `byte as char` for every byte that "
     "needs no escape: each byte of a multi-byte UTF-8 character becomes a Latin-1 character",
     "one literal that contains both a character needing an escape (quote, backslash, LF, CR, TAB) and a non-ASCII character, "
     "exported with generate_nquads",
     "seeded_demo.rs -> kolibrie/tests/seeded_demo.rs; cargo test --offline -p kolibrie --test seeded_demo",
     "PENDING", "PENDING", "PENDING",
     "./check C14 (C14-R2 pass-through): escape_ntriples_literal turns a byte into a char without an ASCII test; rc=1",
     first_missed="first run: the check fired only because it did not recognise the byte-wise escape table (fail-closed floor), which "
                  "would also have fired on a correct byte-wise rewrite; C14-R2 now reads byte tables and has the explicit "
                  "pass-through obligation (benign twin: selftest/C14/benign_escaper_push_loop.diff)")


def main():
    for sid, m in sorted(M.items()):
        if m["what"] is None:
            continue
        d = os.path.join(VERIF, "seeded", sid)
        if not os.path.isdir(d):
            print("skip (no directory)", sid)
            continue
        with open(os.path.join(d, "meta.json"), "w") as f:
            json.dump(m, f, indent=1)
            f.write("\n")
        pend = [k for k, v in m["confirmed"].items() if v == "PENDING"]
        print("wrote", sid, ("PENDING: " + ",".join(pend)) if pend else "")


if __name__ == "__main__":
    main()
